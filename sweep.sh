#!/bin/bash
# developer helper: run several checks with a small case count and print the verdict lines
cases=${CASES:-600}
for p in "$@"; do
  VERIF_CASES=$cases /verif/target/debug/hqverif check $p quick 2>&1 | grep -v "^proptest" | tail -4
done
