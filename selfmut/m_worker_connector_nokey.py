# worker connector falls back to a keyless handshake (key not passed on)
p='crates/tako/src/internal/worker/rpc.rs'
s=open(p).read()
old='do_authentication(0, "worker", "server", secret_key, &mut writer, &mut reader).await?;'
assert old in s
s=s.replace(old,'do_authentication(0, "worker", "server", secret_key.filter(|_| server_addresses.len() > 1), &mut writer, &mut reader).await?;')
open(p,'w').write(s)
