# worker connector announces / expects the roles of the client endpoint (copy-paste slip)
p='crates/tako/src/internal/worker/rpc.rs'
s=open(p).read()
old='do_authentication(0, "worker", "server", secret_key, &mut writer, &mut reader).await?;'
assert old in s
s=s.replace(old,'do_authentication(0, "hq-client", "hq-server", secret_key, &mut writer, &mut reader).await?;')
open(p,'w').write(s)
