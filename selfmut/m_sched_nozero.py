p='crates/tako/src/internal/scheduler/solver.rs'
s=open(p).read()
old='''                if zero_cond.is_empty() {
                    continue;
                }'''
new='''                if zero_cond.len() <= 1 {
                    continue;
                }'''
assert old in s
open(p,'w').write(s.replace(old,new,1))
