p='crates/tako/src/internal/worker/resources/pool.rs'
s=open(p).read()
old='''                        *f += index.fractions;
                        if *f == FRACTIONS_PER_UNIT {
                            pool.fractions[index.group_idx as usize].remove(&index.index);
                            pool.indices[index.group_idx as usize].push(index.index);
                        }'''
new='''                        *f += index.fractions;
                        if *f >= FRACTIONS_PER_UNIT - 1 {
                            pool.fractions[index.group_idx as usize].remove(&index.index);
                            pool.indices[index.group_idx as usize].push(index.index);
                        }'''
assert old in s
open(p,'w').write(s.replace(old,new,1))
