p='crates/hyperqueue/src/stream/reader/outputlog.rs'
s=open(p).read()
old='''                task.instances.sort_by_key(|x| x.instance_id);'''
new='''                task.instances.sort_by_key(|x| std::cmp::Reverse(x.instance_id));'''
assert old in s
open(p,'w').write(s.replace(old,new,1))
