p='crates/tako/src/internal/transfer/auth.rs'
s=open(p).read()
old='''            (AuthenticationResponse::NoAuth, None) => {'''
new='''            (AuthenticationResponse::NoAuth, _) => {'''
assert old in s
open(p,'w').write(s.replace(old,new,1))
