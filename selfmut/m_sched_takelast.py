p='crates/tako/src/internal/scheduler/taskqueue.rs'
s=open(p).read()
old='''        let Some((prefill_priority, _)) = &self.prefill else {
            while count > 0 {
                let entry = self.queue.first_entry().unwrap();
                take_from_entry(entry, &mut count, &mut result);
            }
            return result;
        };'''
new='''        let Some((prefill_priority, _)) = &self.prefill else {
            while count > 0 {
                let entry = self.queue.last_entry().unwrap();
                take_from_entry(entry, &mut count, &mut result);
            }
            return result;
        };'''
assert old in s
open(p,'w').write(s.replace(old,new,1))
