#!/bin/bash
# developer helper: apply a python-scripted mutation to /repo, run checks, revert.
# usage: run_mut.sh <name> <python-snippet-file> <ID>[,<ID>...] [cases]
name=$1; snippet=$2; ids=$3; cases=${4:-}
cd /repo || exit 2
if ! git diff --quiet; then echo "repo dirty"; exit 2; fi
python3 "/verif/selfmut/$snippet" || { echo "mutation script failed"; git checkout -- .; exit 2; }
git diff --stat | tail -1
cd /verif/harness && CARGO_NET_OFFLINE=true cargo build 2>&1 | grep -E "^error" -A8 | head -20
for id in ${ids//,/ }; do
  if [ -n "$cases" ]; then export VERIF_CASES=$cases; fi
  out=$(/verif/target/debug/hqverif check $id quick 2>&1 | grep -v "^proptest" | grep -v "^KNOWN" | tail -3 | cut -c1-400)
  echo "[$name] $id: $out"
  # do not keep found replays of self mutations
  rm -f /verif/replays/$id/found/*.json
done
cd /repo && git checkout -- . && echo reverted
cd /verif && git checkout -- evidence 2>/dev/null
