p='crates/hyperqueue/src/stream/reader/outputlog.rs'
s=open(p).read()
old='''                if task
                    .instances
                    .last()
                    .map(|x| x.instance_id != chunk_header.instance)
                    .unwrap_or(true)
                {'''
new='''                if task.instances.is_empty() {'''
assert old in s
open(p,'w').write(s.replace(old,new,1))
