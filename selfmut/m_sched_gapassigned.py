p='crates/tako/src/internal/scheduler/gap.rs'
s=open(p).read()
old='''            if rq_id != high_priority_rq {
                let rq = resource_rq_map.get(rq_id).get(rv_id);
                free.remove(rq);
            }'''
new='''            if rq_id != high_priority_rq && rq_id != low_priority_rq {
                let rq = resource_rq_map.get(rq_id).get(rv_id);
                free.remove(rq);
            }'''
assert old in s
open(p,'w').write(s.replace(old,new,1))
