p='crates/tako/src/internal/worker/resources/pool.rs'
s=open(p).read()
old='''            AllocationRequest::Compact(amount) | AllocationRequest::ForceCompact(amount) => (
                *amount,
                Self::claim_scatter_from_groups(*amount, pool, Some(group_set)),
            ),
            AllocationRequest::Tight(amount) | AllocationRequest::ForceTight(amount) => (
                *amount,
                Self::claim_compact_from_groups(*amount, pool, Some(group_set)),
            ),'''
new='''            AllocationRequest::Compact(amount) | AllocationRequest::ForceCompact(amount) => (
                *amount,
                Self::claim_compact_from_groups(*amount, pool, Some(group_set)),
            ),
            AllocationRequest::Tight(amount) | AllocationRequest::ForceTight(amount) => (
                *amount,
                Self::claim_scatter_from_groups(*amount, pool, Some(group_set)),
            ),'''
assert old in s
open(p,'w').write(s.replace(old,new,1))
