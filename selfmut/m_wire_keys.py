p='crates/hyperqueue/src/server/bootstrap.rs'
s=open(p).read()
old='''    let worker_key = server_cfg.worker_secret_key.take();
    let client_key = server_cfg.client_secret_key.take();'''
new='''    let worker_key = server_cfg.worker_secret_key.take();
    let client_key = server_cfg.client_secret_key.take().and(worker_key.clone());'''
assert old in s
open(p,'w').write(s.replace(old,new,1))
