p='crates/tako/src/internal/worker/resources/pool.rs'
s=open(p).read()
old='''            .filter(|(_, f)| **f >= fractions)
            .min_by_key(|(_, f)| **f)'''
new='''            .filter(|(_, f)| **f > fractions)
            .min_by_key(|(_, f)| **f)'''
assert old in s
open(p,'w').write(s.replace(old,new,1))
