p='crates/tako/src/internal/transfer/auth.rs'
s=open(p).read()
old='''                if msg.challenge.len() != CHALLENGE_LENGTH {'''
new='''                if msg.challenge.len() < CHALLENGE_LENGTH {'''
assert old in s
open(p,'w').write(s.replace(old,new,1))
