p='crates/hyperqueue/src/server/client/submit.rs'
s=open(p).read()
old='''            if !job.is_open() {
                return ToClientMessage::SubmitResponse(SubmitResponse::JobNotOpened);'''
new='''            if !job.is_open() && job.is_terminated() {
                return ToClientMessage::SubmitResponse(SubmitResponse::JobNotOpened);'''
assert old in s
open(p,'w').write(s.replace(old,new,1))
