p='crates/tako/src/internal/scheduler/solver.rs'
s=open(p).read()
old='''                                    cut_size + batch_size + gap as f64,
                                    vars,'''
new='''                                    cut_size + batch_size + gap as f64 + 1.0,
                                    vars,'''
assert old in s
open(p,'w').write(s.replace(old,new,1))
