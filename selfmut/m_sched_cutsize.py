p='crates/tako/src/internal/scheduler/batches.rs'
s=open(p).read()
old='''                    let cut = PriorityCut {
                        size,
                        blockers: higher_priorities,
                    };'''
new='''                    let cut = PriorityCut {
                        size: size + 1,
                        blockers: higher_priorities,
                    };'''
assert old in s
open(p,'w').write(s.replace(old,new,1))
