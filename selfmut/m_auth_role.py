p='crates/tako/src/internal/transfer/auth.rs'
s=open(p).read()
old='''        if message.role != self.peer_role {'''
new='''        if false && message.role != self.peer_role {'''
assert old in s
open(p,'w').write(s.replace(old,new,1))
