p='crates/tako/src/internal/worker/resources/allocator.rs'
s=open(p).read()
old='''        objective_value >= optimal_const'''
new='''        objective_value >= optimal_const - 1024.0'''
assert old in s
open(p,'w').write(s.replace(old,new,1))
