#!/bin/bash
# MANIFEST.setup_cmd: offline build of the harness (and of /repo with the verif feature)
set -eu
cd /verif/harness
export CARGO_NET_OFFLINE=true
mkdir -p /verif/target /verif/evidence
cargo build --offline 2>&1 | tail -n 5
