#!/usr/bin/env python3
"""Generates /verif/MANIFEST.json from the table below (keeps it valid and current)."""
import json
import subprocess

SIM = "SIM: bounded exhaustive enumeration of 16 small scenarios (systematic phase) followed by random search; deterministic cluster simulation (real Core + MILP scheduler + HQ State/EventStreamer/journal process + real WorkerState), harness-owned schedule"

CHECKS = {
    # id: (engine, category, technique, text, note, design_ref)
    "C04": ("ALLOC", "exploration", "stateful property-based testing of the real ResourceAllocator against a harness-side ledger (reference model)",
            "Random descriptors (range/list/uneven groups/sum with fractional size, couplings) and random try_allocate/release sequences; after every operation a ledger of live allocations is compared index by index with the allocator's pools and its concise summary: exclusivity (<=100% per index, sum <= size), exact amounts, one fractional index and it is last, indices/groups belong to the descriptor, conservation after release, `all` of everything granted after the final release.",
            "1 of 11 cases is a SIM history on real workers (live allocations against the same ledger, HQ_RESOURCE_VALUES_* / HQ_CPUS against the held indices, conservation of every pool of every live worker after every step); requests respect CLI rules; an allocator call that does not come back within 10 s is abandoned and reported as inconclusive unless a violation is found next to it", "5/C04"),
    "C15": ("SCHED", "exploration", "property-based testing of single scheduling rounds with a validity predicate over (dispatched, remaining)",
            "Random small clusters (idle or partly busy) and ready queues; one round of the real MILP scheduler through the server API; for every pair (dispatched lower-priority task, remaining higher-priority ready task) the statement's predicate is evaluated literally, including the exception clause. A literal inversion is matched by a known finding only if it stays within the limits the MILP encoding itself states for the pair (per worker capable of the blocker: #lower class <= cut + gap, sum over workers without a gap <= cut; recomputed by the harness independently of batches.rs / gap.rs); an inversion beyond those limits or within one request class is a violation.",
            "only rounds whose solve completed optimally are judged; 'too busy' of the exception clause is interpreted against free resources before the round minus dispatches of at least the waiting task's priority", "5/C15"),
    "C17": ("AUTOALLOC", "exploration", "stateful property-based testing of the real autoalloc state machine against a fake batch system with reference models of the limits and the back-off contract",
            "Generated histories of demand, ticks, status reports, worker connects/losses, pause/resume/remove and clock advances through the real handle_message/perform_submits/do_periodic_update; invariants after every step (backlog, max worker count, workers per allocation, nothing for paused queues, nothing without fitting demand, back-off delays per the documented RateLimiter contract as a set of possible states, pause after the configured failures) and a must-submit check after resume in a clear-cut state.",
            "fake QueueHandler at the trait boundary; event loop replaced by explicit tick/update actions; mocked monotonic clock", "5/C17"),
    "C18": ("AUTOALLOC", "exploration", "stateful property-based testing with a reference model of the allocation life-cycle",
            "Same engine as C17 with a life-cycle model per allocation: forward-only state sequence, exactly-once announcements, exact connected-worker set while running, normal finish exactly when the number of distinct lost workers reaches the target, unknown allocations change nothing, queue removal cancels each active allocation once and forgets everything.",
            "allocations that saw a loss while queued or a status error are excluded from the comparison with the life-cycle model (statement silent / the number of status errors after which an allocation is given up is not fixed by the statement); monotonicity and exactly-once announcements are still checked for them, and status-error streaks of 11-26 updates are generated", "5/C18"),
    "C19": ("STREAM", "exploration", "round-trip property-based testing: real stream writers -> files (interleaved, several writers, torn) -> real OutputLog reader",
            "Several real StreamerRef writers (1-4, in one case of seven 17-22: more files than the reader keeps open) write generated chunk sequences of several tasks and instances into one directory, interleaved by a generated schedule; crashed writers lose their tail (file cut at a generated offset); cat (both channels), export and summary of the real reader are compared with what the last execution of every task that ended on a live writer wrote.",
            "pipes of real child processes are replaced by send_data calls with the chunking of resend_stdio", "5/C19"),
    "C20": ("AUTH", "exploration", "property-based testing with a generated man-in-the-middle and a provenance-based reference model of acceptance",
            "Three honest do_authentication endpoints over in-memory duplex streams, an earlier clean session for replays, and an adversary that forwards/drops/reflects/replays/splices/edits each of the handshake messages; an endpoint must accept iff it received a request with its protocol, expected peer role and compatible mode and a response that is NoAuth (no key) or byte-identical to a proof produced by an honest holder of the same key with the expected role for this connection's challenge; sealed messages must round-trip after a clean handshake.",
            "cryptographic strength of orion assumed; my_role != peer_role; before the generated search a wiring phase starts the real server (init_hq_server) with two different keys and tries all 32 combinations of port x role pair x key x protocol number as a connecting peer (only the two matching ones may be accepted), and a connector phase runs HyperQueue's client connector against a harness listener for all 310 sequences (length <= 3) of {close, garbage, honest server without key / with the client's key / with another key}; a worker connector phase runs tako's connect_to_server_and_authenticate (called by the worker's registration loop for every attempt) against 8 listener behaviours x worker with / without key (exhaustive, 16 cases); the retry loop around it (connect_and_register, 10 s real-time delays) is not driven", "5/C20"),
    "C16": ("ALLOC", "exploration", "property-based differential testing: real allocator vs brute-force reference over all group subsets",
            "For every request the grant/refusal and the groups used are compared with an exhaustive reference on the pre-state snapshot: feasibility (non-strict requests never refused spuriously, never granted infeasibly), minimum groups now (compact/tight), minimum groups on the empty worker (strict, if granted), maximum spread (scatter), `all`, single fractional index, is_enabled == try_allocate, no panic.",
            "coupling weights <= 256 with at most 3 items; refusals of strict requests are not judged", "5/C16"),
    "C01": ("SIM", "exploration", "stateful property-based testing (proptest choice sequences over a simulated cluster), history invariants over event/launcher streams",
            "Generated histories (submits, message interleavings, losses, cancels, launch failures, time-limit expiries) are run against the real server+worker code; every event stream is checked for exactly-one terminal outcome, ordering, finish-implies-successful-execution and time-limit enforcement. Search, not proof: held on everything explored.",
            "fake TaskLauncher instead of real processes; message-granularity interleavings; mirrored registration glue in tako::verif", "5/C01"),
    "C02": ("SIM", "exploration", "stateful property-based testing, bijection invariant after every step + quiescence check after a fault-free drain",
            "After every step the set of unfinished tasks shown by the job layer is compared with the scheduler's task set; at harness-detected quiescence every unfinished task must be blocked by a dependency or not runnable on any connected worker (capability decided from descriptor sizes), and with capable workers everything must terminate.",
            "quiescence is detected by the harness (bounded drain); capability model follows docs/jobs/resources.md", "5/C02"),
    "C03": ("SIM", "exploration", "stateful property-based testing over random DAGs, history invariants",
            "Random DAG submits (also into open jobs, depending on earlier tasks in any state) with failures/cancels/losses; every start/execution is checked against successful completion of all dependencies, failures must abort all transitive dependents, unrelated tasks must not be aborted.",
            "as C01", "5/C03"),
    "C05": ("SIM", "exploration", "stateful property-based testing, snapshot invariant recomputed from task states after every step",
            "Placed amounts per worker are recomputed from task states (not from the server's own free counters) after every step and compared with the descriptor; every ComputeTasks is checked for capability and remaining life time; multi-node placements for node count, distinctness, single group and exclusivity.",
            "2 s tolerance on life-time comparisons (real clock jitter)", "5/C05"),
    "C06": ("SIM", "exploration", "stateful property-based testing with scaled-down prefill thresholds, invariants over launcher log and message streams",
            "Prefill/retract/redirect choreographies with delayed deliveries and losses; checks: no two live executions on connected workers, no start after a confirmed retract, strictly increasing instance ids over successive executions.",
            "executions on disconnected workers are outside the statement", "5/C06"),
    "C07": ("SIM", "exploration", "stateful property-based testing with a reference crash counter",
            "Every loss reason at every lifecycle point against a reference model of the documented crash-limit rule; queued tasks must not be penalised; counters compared with the scheduler snapshot.",
            "multi-node non-root / not-yet-started losses are accepted either way (statement silent)", "5/C07"),
    "C08": ("SIM", "exploration", "stateful property-based testing, invariants around every cancel",
            "Cancels at every point relative to in-flight messages; checks on events, launcher (stop signal on delivery, no start after the worker processed the cancel, backlog included), scheduler snapshot (no dangling reference, exact reservations) and idempotence.",
            "as C01", "5/C08"),
    "C09": ("SIM", "exploration", "bounded exhaustive enumeration of small scenarios + stateful property-based testing / fuzzing of message schedules, with catch_unwind + panic hook as oracle",
            "Bounded exhaustive enumeration of 16 small scenarios (all interleavings of deliveries, scheduler rounds, task ends and a bounded number of losses / cancels / failures up to a depth bound, visited-state pruning) followed by a uniformly weighted chaos profile over all actions including every client request type and the scheduler query of the autoalloc tick (ServerRef::new_worker_query with 1-3 generated queue descriptions), 4 of 10 histories from the profiles of the other checks; any panic in repository code (also inside spawned worker futures) is a violation.",
            "correctly behaving workers only; harness panics are reported as inconclusive", "5/C09"),
    "C10": ("RESTORE", "fault_enumeration", "crash-point enumeration over generated journals (stateful property-based testing produces the journals) with an independent reference fold as oracle",
            "Journals are produced by SIM histories through the real journal process; every record boundary (and 8 interior offsets) is a crash point; the real restore runs on every prefix and is compared with a reference fold of the recorded events: startup succeeds, jobs/open flag/task sets/outcomes/counters, pending tasks exactly once with remaining dependencies, exact truncation of a torn tail, re-opened journal well formed; one restored server per case is continued to completion (every unfinished task runs exactly once).",
            "crash = loss of a suffix of the file; interior cuts after the header; one case in eight additionally starts the real server (init_hq_server over loopback sockets) on a copy of the complete journal, asks it for its UID, submits a job and stops it", "5/C10"),
    "C11": ("RESTORE", "fault_enumeration", "crash-point enumeration over generated (also pruned) journals, comparison of issued ids with every id the prefix mentions",
            "For every cut of every generated journal the first job id, worker id and queue id that the restored server would issue and the server uid are compared with all ids mentioned anywhere in the prefix (jobs, workers in connect/loss/start records, queues).",
            "queue ids: the counter handed over by the restore is compared, and the restored queues are re-added to a real autoalloc state through the production AddQueue path before a new queue is created; second-generation restarts (restore, continue with random actions, restore again) cover repeated restarts", "5/C11"),
    "C12": ("RESTORE", "fault_enumeration", "metamorphic testing: Restore(pruned journal + suffix) vs Restore(unpruned journal + suffix) at every record boundary of the suffix",
            "Histories with prune requests at random moments (live sets computed by the real handler, pruning done by the real journal process); a shadow unpruned journal is written from the same event stream; both are restored at every record boundary after the last prune and compared (jobs, outcomes, pending tasks with dependencies, next instance ids, crash counts, queues); the pruned file is re-read, appended to and pruned again.",
            "id counters are not compared here (C11 does that)", "5/C12"),
    "C13": ("SIM", "exploration", "stateful property-based testing with a reference model of job book-keeping",
            "open/submit/close/cancel/forget sequences with arbitrary id arrays, entries and graphs interleaved with task progress; counters recounted, documented job state derivation, exactly-once completion at the right moment, submit atomicity and id assignment, completion report delivery to submit-with-wait clients (client connection suspended inside the journal flush).",
            "one client request per micro step; CLI-level preconditions (non-empty submits) respected", "5/C13"),
    "C14": ("SIM", "exploration", "stateful property-based testing, history invariant at the step the limit is exceeded",
            "Failures of every kind with siblings in every state; at the step the number of failures exceeds the limit all unfinished tasks must be aborted, running ones told to stop, nothing started afterwards; no abort before.",
            "as C01", "5/C14"),
}

CLAIMED = ["C%02d" % i for i in range(1, 21)]

NOT_YET = {
    "C01": "check under construction in this round (SIM monitors written, not yet validated on the unchanged tree)",
    "C02": "check under construction in this round",
    "C03": "check under construction in this round",
    "C04": "check under construction in this round (ALLOC engine)",
    "C05": "check under construction in this round",
    "C06": "check under construction in this round",
    "C07": "check under construction in this round",
    "C08": "check under construction in this round",
    "C10": "check under construction in this round (RESTORE engine)",
    "C11": "check under construction in this round (RESTORE engine)",
    "C12": "check under construction in this round (RESTORE engine)",
    "C13": "check under construction in this round",
    "C14": "check under construction in this round",
    "C15": "check under construction in this round (SCHED engine)",
    "C16": "check under construction in this round (ALLOC engine)",
    "C17": "check under construction in this round (AUTOALLOC engine)",
    "C18": "check under construction in this round (AUTOALLOC engine)",
    "C19": "check under construction in this round (STREAM engine)",
    "C20": "check under construction in this round (AUTH engine)",
}


def hook_commits():
    out = subprocess.run(
        ["git", "-C", "/repo", "log", "--format=%H %s"], capture_output=True, text=True
    ).stdout.splitlines()
    return [l.split()[0] for l in out if " verif hooks" in l]


def main():
    checks = []
    for pid in CLAIMED:
        engine, cat, technique, text, note, ref = CHECKS[pid]
        checks.append({
            "property_id": pid,
            "quick_cmd": f"./run.sh {pid} quick",
            "thorough_cmd": f"./run.sh {pid} thorough",
            "evidence_file": f"/verif/evidence/{pid}.json",
            "replay_cmd_template": f"./run.sh replay {pid} {{path}}",
            "engine": engine,
            "level_claimed": {"category": cat, "text": text, "design_ref": f"DESIGN.md section {ref}"},
            "level_note": note,
            "technique": technique,
        })
    manifest = {
        "version": 1,
        "setup_cmd": "./setup.sh",
        "hooks": {
            "guard": "cargo feature `verif` (tako/verif, hyperqueue/verif)",
            "enable": "the harness crate depends on /repo/crates/{tako,hyperqueue} by path with features=[\"verif\"]; every check runs `cargo build --offline` in /verif/harness first, which rebuilds from /repo's working tree",
            "baseline_off_cmd": "cd /repo && cargo nextest run --workspace --no-fail-fast --tool-config-file pb:/w/lib/nextest.toml --profile pb --test-threads 8 --offline || cargo test --workspace --no-fail-fast --offline",
            "source_commits": hook_commits(),
            "add_only": True,
        },
        "engines": [
            {"name": "ALLOC", "path": "/verif/harness/src/alloc.rs", "serves_properties": ["C04", "C16"], "kind_free_text": "real ResourceAllocator through tako::verif::AllocatorHandle, ledger + brute-force reference"},
            {"name": "SCHED", "path": "/verif/harness/src/sched.rs", "serves_properties": ["C15"], "kind_free_text": "one scheduling round of the real scheduler on generated clusters/queues, literal validity predicate"},
            {"name": "AUTOALLOC", "path": "/verif/harness/src/autoalloc.rs", "serves_properties": ["C17", "C18"], "kind_free_text": "real autoalloc state machine (hook autoalloc::verif) against a fake batch system, real tako core as demand source, mocked monotonic clock"},
            {"name": "STREAM", "path": "/verif/harness/src/stream.rs", "serves_properties": ["C19"], "kind_free_text": "real StreamerRef writers and real OutputLog reader, stdout of cat/export captured"},
            {"name": "AUTH", "path": "/verif/harness/src/auth.rs", "serves_properties": ["C20"], "kind_free_text": "real do_authentication endpoints over duplex streams with a generated adversary"},
            {"name": "RESTORE", "path": "/verif/harness/src/restore.rs", "serves_properties": ["C10", "C11", "C12", "C03", "C06", "C07"], "kind_free_text": "journals written by SIM through the real journal process, cut at every record boundary, real restore vs independent reference fold; pruned vs shadow journal"},
            {"name": "SIM", "path": "/verif/harness/src/sim", "serves_properties": ["C01", "C02", "C03", "C05", "C06", "C07", "C08", "C09", "C13", "C14"], "kind_free_text": SIM},
        ],
        "checks": checks,
        "notes": "All checks are generated-input searches (proptest, seeded by VERIF_SEED) against explicit oracles; see DESIGN.md. Exit 2 = inconclusive, never a violation.",
        "not_applicable": [
            {"property_id": pid, "reason": reason}
            for pid, reason in sorted(NOT_YET.items())
            if pid not in CLAIMED
        ],
    }
    with open("/verif/MANIFEST.json", "w") as f:
        json.dump(manifest, f, indent=1)
        f.write("\n")


if __name__ == "__main__":
    main()
