#!/bin/bash
# Entry point of every MANIFEST command: ./run.sh <ID> <quick|thorough>   or   ./run.sh replay <ID> <file>
# exit 0 = property held on everything explored; exit 1 + "VIOLATION property=<id> replay=<path>";
# exit 2 = inconclusive (build failure, harness error) - never a violation.
set -u
cd /verif/harness || exit 2
export CARGO_NET_OFFLINE=true
export VERIF_SEED="${VERIF_SEED:-1}"
BUILD_LOG=/verif/target/build.log
mkdir -p /verif/target /verif/evidence
if ! cargo build --offline >"$BUILD_LOG" 2>&1; then
    echo "INCONCLUSIVE: harness does not build against /repo (see $BUILD_LOG)"
    tail -n 30 "$BUILD_LOG"
    exit 2
fi
BIN=/verif/target/debug/hqverif
if [ "$1" = "replay" ]; then
    exec "$BIN" replay "$2" "$3"
fi
ID="$1"
TIER="${2:-${VERIF_TIER:-quick}}"
exec "$BIN" check "$ID" "$TIER"
