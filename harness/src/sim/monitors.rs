//! Property monitors: pure functions over the observation streams and snapshots.
//! They never call repository predicates to decide a verdict (job_status is called only to
//! compare it with the documented derivation).

use std::collections::{BTreeMap, BTreeSet};

use hyperqueue::client::status::{Status, job_status};
use hyperqueue::server::event::payload::EventPayload;
use hyperqueue::server::job::JobTaskState;
use hyperqueue::transfer::messages::{
    CancelJobResponse, JobTaskDescription, SubmitRequest, SubmitResponse, ToClientMessage,
};
use tako::gateway::{CrashLimit, LostWorkerReason, ResourceRequest, ResourceRequestVariants};
use tako::resources::AllocationRequest;
use tako::verif::{CoreSnapshot, TaskStateSnap, WorkerSnap};
use tako::{JobId, TaskId, WorkerId};

use super::launcher::{EndKind, LEvent};
use super::obs::{FromW, Obs, ToW, Upd};
use super::world::{PCall, PendingRequest, World};

#[derive(Debug, Clone, Copy, PartialEq, Eq)]
pub enum Kind {
    Waiting,
    Running,
    Finished,
    Failed,
    Canceled,
    Aborted,
}

impl Kind {
    pub fn terminal(&self) -> bool {
        !matches!(self, Kind::Waiting | Kind::Running)
    }
}

fn kind_of(s: &JobTaskState) -> Kind {
    match s {
        JobTaskState::Waiting => Kind::Waiting,
        JobTaskState::Running { .. } => Kind::Running,
        JobTaskState::Finished { .. } => Kind::Finished,
        JobTaskState::Failed { .. } => Kind::Failed,
        JobTaskState::Canceled { .. } => Kind::Canceled,
        JobTaskState::Aborted { .. } => Kind::Aborted,
    }
}

#[derive(Debug, Clone, PartialEq)]
pub struct JobView {
    pub open: bool,
    pub tasks: BTreeMap<u32, Kind>,
    pub counters: (u32, u32, u32, u32, u32),
    pub n_tasks: u32,
    pub status: Option<Status>,
}

pub fn job_views(world: &World) -> BTreeMap<JobId, JobView> {
    let st = world.state_ref.get();
    let mut out = BTreeMap::new();
    for job in st.jobs() {
        let info = job.make_job_info(false);
        let status = std::panic::catch_unwind(std::panic::AssertUnwindSafe(|| job_status(&info))).ok();
        out.insert(
            job.job_id,
            JobView {
                open: job.is_open(),
                tasks: job
                    .tasks
                    .iter()
                    .map(|(id, t)| (id.as_num(), kind_of(&t.state)))
                    .collect(),
                counters: (
                    info.counters.n_running_tasks,
                    info.counters.n_finished_tasks,
                    info.counters.n_failed_tasks,
                    info.counters.n_canceled_tasks,
                    info.counters.n_aborted_tasks,
                ),
                n_tasks: info.n_tasks,
                status,
            },
        );
    }
    out
}

#[derive(Debug, Clone)]
pub struct TaskModel {
    pub deps: Vec<TaskId>,
    pub rqv: ResourceRequestVariants,
    pub crash_limit: CrashLimit,
    pub time_limit_ms: Option<u64>,
    pub priority: i32,
    pub submit_step: u32,
    /// terminal outcome in the effective (durable + current epoch) event history
    pub terminal: Option<(Kind, u32)>,
    /// currently reported as started and not requeued / ended; workers (root first)
    pub running_on: Option<Vec<WorkerId>>,
    pub starts: u32,
    pub crash_count: u32,
    /// true if crash accounting for this task is not asserted any more (documented leniency)
    pub cc_lenient: bool,
}

#[derive(Debug, Clone, Default)]
pub struct JobModel {
    pub max_fails: Option<u32>,
    pub n_failed: u32,
    pub exceeded_step: Option<u32>,
    pub completed: u32,
    pub cancels: u32,
}

struct SubmitSent {
    client: usize,
    job_id: Option<JobId>,
    auto_ids: bool,
    n_expected: u32,
    explicit_ids: Vec<u32>,
    invalid: bool,
    /// views right before the request was sent are not needed: diff is taken around the poll
    seen_event: Option<Vec<u32>>,
    event_job: Option<JobId>,
    max_before: Option<u32>,
    /// the request as sent, without the ids of an array (see `submit_fingerprint`)
    fingerprint: String,
}

/// Everything of a submit request that the server has to record unchanged: job description,
/// resource requests, task descriptions, entries, dependencies. The ids of an array submit are
/// left out (they are assigned by the server when the request has none; compared separately).
fn submit_fingerprint(req: &SubmitRequest) -> String {
    let mut v = serde_json::to_value(&req.submit_desc).unwrap_or_default();
    if let Some(a) = v
        .get_mut("task_desc")
        .and_then(|t| t.get_mut("Array"))
        .and_then(|a| a.as_object_mut())
    {
        a.remove("ids");
    }
    format!(
        "{}|{}",
        serde_json::to_string(&req.job_desc).unwrap_or_default(),
        v
    )
}

#[derive(Default)]
pub struct Monitors {
    pub tasks: BTreeMap<TaskId, TaskModel>,
    pub jobs: BTreeMap<JobId, JobModel>,
    ev_idx: usize,
    l_idx: usize,
    tw_idx: usize,
    tws_idx: usize,
    ts_idx: usize,
    tss_idx: usize,
    p_idx: usize,
    loss_idx: usize,
    prev_views: BTreeMap<JobId, JobView>,
    prev_snap: Option<CoreSnapshot>,
    last_build_instance: BTreeMap<TaskId, u32>,
    /// (worker, task) pairs for which the worker confirmed a retract and no newer assignment arrived
    retract_confirmed: BTreeSet<(WorkerId, TaskId)>,
    /// (worker, task) pairs for which the worker processed a CancelTasks
    cancel_delivered: BTreeSet<(WorkerId, TaskId)>,
    /// exec -> (worker, task)
    exec_info: BTreeMap<u32, (WorkerId, TaskId, u32)>,
    exec_finished_ok: BTreeSet<TaskId>,
    submits: Vec<SubmitSent>,
    /// jobs for which a cancel was answered: tasks canceled
    canceled_tasks: BTreeSet<TaskId>,
    forgotten: BTreeSet<JobId>,
    /// (task, redirect target) -> remaining life time of the target when the redirect appeared
    redirect_remaining: BTreeMap<(TaskId, WorkerId), Option<std::time::Duration>>,
    /// selector (and status filter) of the request the polled client is waiting for
    pub current_sel: Option<(super::world::Sel, Vec<Status>)>,
    pub micro: u32,
    env_idx: usize,
    /// tasks that a worker started by itself from its prefilled backlog
    prefill_started: BTreeSet<TaskId>,
    /// workers on which such a start exceeded the server's reservation (see check_c05)
    prefill_overcommitted: BTreeSet<WorkerId>,
    /// the client connection that was polled in the current micro step (if any)
    pub current_client: Option<usize>,
    maxfail_aborted: BTreeSet<TaskId>,
    last_time_check_ms: u64,
}

fn amount_of(policy: &AllocationRequest, total: u64) -> u64 {
    match policy {
        AllocationRequest::All => total,
        other => other
            .amount_or_none_if_all()
            .map(|a| a.total_fractions())
            .unwrap_or(total),
    }
}

fn res_index(names: &[String], name: &str) -> Option<usize> {
    names.iter().position(|n| n == name)
}

/// Does the worker provide everything the request variant needs (sizes only)?
pub fn worker_covers(names: &[String], w: &WorkerSnap, rq: &ResourceRequest) -> bool {
    if rq.n_nodes > 0 {
        return true;
    }
    rq.resources.iter().all(|e| {
        let Some(idx) = res_index(names, &e.resource) else {
            return false;
        };
        let total = w.total.get(idx).copied().unwrap_or(0);
        match &e.policy {
            AllocationRequest::All => total > 0,
            p => amount_of(p, total) <= total && total > 0,
        }
    })
}

impl Monitors {
    pub fn on_submit_sent(&mut self, client: usize, request: &SubmitRequest, invalid: bool) {
        let (auto_ids, n_expected, explicit_ids) = match &request.submit_desc.task_desc {
            JobTaskDescription::Array { ids, entries, .. } => {
                if ids.is_empty() {
                    (
                        true,
                        entries.as_ref().map(|e| e.len() as u32).unwrap_or(1),
                        Vec::new(),
                    )
                } else {
                    (false, 0, ids.iter().collect())
                }
            }
            JobTaskDescription::Graph { tasks, .. } => {
                (false, 0, tasks.iter().map(|t| t.id.as_num()).collect())
            }
        };
        self.submits.push(SubmitSent {
            client,
            job_id: request.job_id,
            auto_ids,
            n_expected,
            explicit_ids,
            invalid,
            seen_event: None,
            event_job: None,
            max_before: None,
            fingerprint: submit_fingerprint(request),
        });
    }

    /// Called for every non-event message a client receives.
    pub fn on_response(
        &mut self,
        world: &World,
        obs: &mut Obs,
        step: u32,
        client: usize,
        pending: Option<PendingRequest>,
        msg: ToClientMessage,
    ) {
        let _ = world;
        let Some(p) = pending else {
            return;
        };
        match msg {
            ToClientMessage::SubmitResponse(resp) => {
                let Some(pos) = self.submits.iter().position(|s| s.client == client) else {
                    return;
                };
                let sent = self.submits.remove(pos);
                match resp {
                    SubmitResponse::Ok { job, .. } => {
                        obs.class("submit-ok");
                        let ids_now: BTreeSet<u32> =
                            job.tasks.iter().map(|(id, _)| id.as_num()).collect();
                        if ids_now.len() != job.tasks.len() {
                            obs.alarm(
                                "C13",
                                step,
                                "submit response lists a task id twice",
                                format!("job {}", job.info.id),
                            );
                        }
                        let Some(new_ids) = sent.seen_event else {
                            obs.alarm(
                                "C13",
                                step,
                                "accepted submit produced no Submit event",
                                format!("job {}", job.info.id),
                            );
                            return;
                        };
                        if sent.auto_ids {
                            let start = sent.max_before.map(|m| m + 1).unwrap_or(0);
                            let expect: Vec<u32> = (start..start + sent.n_expected).collect();
                            if new_ids != expect {
                                obs.alarm(
                                    "C13",
                                    step,
                                    "auto-assigned task ids are not max+1.. contiguous with the right count",
                                    format!(
                                        "job {} expected ids {:?} but the submit created {:?}",
                                        job.info.id, expect, new_ids
                                    ),
                                );
                            }
                        } else {
                            let mut e = sent.explicit_ids.clone();
                            e.sort_unstable();
                            if new_ids != e {
                                obs.alarm(
                                    "C13",
                                    step,
                                    "submit created a different id set than requested",
                                    format!("job {} requested {:?} created {:?}", job.info.id, e, new_ids),
                                );
                            }
                        }
                        for id in &new_ids {
                            if !ids_now.contains(id) {
                                obs.alarm(
                                    "C13",
                                    step,
                                    "submit response misses a created task",
                                    format!("job {} task {}", job.info.id, id),
                                );
                            }
                        }
                        if sent.invalid {
                            // an intentionally invalid submit was accepted: only a problem if it
                            // was invalid for a reason the statement lists; "closed-job" and
                            // "unknown-job" variants can legitimately turn valid when the harness'
                            // fallback picked a fresh id, so nothing is asserted here
                        }
                    }
                    _other => {
                        obs.class("submit-rejected");
                        if sent.seen_event.is_some() {
                            obs.alarm(
                                "C13",
                                step,
                                "rejected submit had an effect (Submit event emitted)",
                                format!("job {:?}", sent.job_id),
                            );
                        }
                    }
                }
            }
            ToClientMessage::CancelJobResponse(rs) => {
                // "once the server has answered a cancel request for a job": at that moment no
                // task of the job is left unfinished (the request is handled within this poll
                // of the connection, nothing else is in between)
                let views = job_views(world);
                for (job_id, r) in rs {
                    if let CancelJobResponse::Canceled(ids, _already) = r {
                        if ids.is_empty() {
                            obs.class("cancel-noop");
                        } else {
                            obs.class("cancel-effective");
                        }
                        // (tasks that already existed when the request was sent: a submit
                        //  of another client may be handled while the cancel waits for the journal)
                        if let Some(v) = views.get(&job_id) {
                            let left: Vec<u32> = p
                                .unfinished_at_send
                                .get(&job_id.as_num())
                                .map(|ids| {
                                    ids.iter()
                                        .filter(|id| v.tasks.get(*id).is_some_and(|k| !k.terminal()))
                                        .copied()
                                        .collect()
                                })
                                .unwrap_or_default();
                            if !left.is_empty() {
                                obs.alarm(
                                    "C08",
                                    step,
                                    "cancel of a job was answered although tasks of the job are still unfinished",
                                    format!("job {job_id}: unfinished tasks {left:?}"),
                                );
                            }
                        }
                    }
                }
            }
            _ => {}
        }
        let _ = p;
    }

    // --------------------------------------------------------------------------------------

    /// Initialise the model from the durable history a restarted server was booted from.
    pub fn load_base(&mut self, base: &[hyperqueue::server::event::Event], world: &World) {
        let mut scratch = Obs::default();
        let events: Vec<(u32, hyperqueue::server::event::Event)> =
            base.iter().map(|e| (0u32, e.clone())).collect();
        self.ev_idx = 0;
        self.fold_events(&events, &mut scratch);
        // a restart forgets which tasks were running
        for tm in self.tasks.values_mut() {
            tm.running_on = None;
        }
        // tasks that finished before the restart were executed successfully then
        let finished: Vec<TaskId> = self
            .tasks
            .iter()
            .filter(|(_, m)| matches!(m.terminal, Some((Kind::Finished, _))))
            .map(|(t, _)| *t)
            .collect();
        self.exec_finished_ok.extend(finished);
        self.ev_idx = 0;
        self.submits.clear();
        self.prev_views = job_views(world);
        self.prev_snap = Some(world.snapshot());
        // crash counters continue from what the restore handed to the scheduler
        if let Some(snap) = &self.prev_snap {
            for ts in &snap.tasks {
                if let Some(tm) = self.tasks.get_mut(&ts.id) {
                    tm.crash_count = ts.crash_counter;
                }
            }
        }
        // jobs completed in the base are gone
        let present: BTreeSet<JobId> = self.prev_views.keys().copied().collect();
        let known: Vec<JobId> = self.jobs.keys().copied().collect();
        for j in known {
            if !present.contains(&j) {
                self.forgotten.insert(j);
            }
        }
        // executions before the restart used the recorded instance ids
        for (_, e) in &events {
            if let EventPayload::TaskStarted {
                task_id,
                instance_id,
                ..
            } = &e.payload
            {
                let v = self.last_build_instance.entry(*task_id).or_insert(0);
                *v = (*v).max(instance_id.as_num());
            }
        }
    }

    fn process_events(&mut self, world: &World, obs: &mut Obs) -> MicroDelta {
        self.fold_events(&world.events, obs)
    }

    fn fold_events(
        &mut self,
        events: &[(u32, hyperqueue::server::event::Event)],
        obs: &mut Obs,
    ) -> MicroDelta {
        let mut delta = MicroDelta::default();
        while self.ev_idx < events.len() {
            let (step, ev) = &events[self.ev_idx];
            self.ev_idx += 1;
            let step = *step;
            match &ev.payload {
                EventPayload::Submit {
                    job_id,
                    serialized_desc,
                    ..
                } => {
                    let Ok(req) = serialized_desc.deserialize() else {
                        continue;
                    };
                    let req: SubmitRequest = req;
                    // a submit that names a job is only accepted for an existing open job
                    if let Some(target) = req.job_id {
                        match self.prev_views.get(&target) {
                            None => obs.alarm(
                                "C13",
                                step,
                                "submit into an unknown job was accepted",
                                format!("job {target}"),
                            ),
                            Some(v) if !v.open => obs.alarm(
                                "C13",
                                step,
                                "submit into a closed job was accepted",
                                format!("job {target}"),
                            ),
                            _ => {}
                        }
                    }
                    let jm = self.jobs.entry(*job_id).or_default();
                    if req.job_id.is_none() {
                        jm.max_fails = req.job_desc.max_fails;
                    }
                    let mut new_ids: Vec<u32> = Vec::new();
                    match &req.submit_desc.task_desc {
                        JobTaskDescription::Array {
                            ids,
                            resource_rq,
                            task_desc,
                            ..
                        } => {
                            for id in ids.iter() {
                                new_ids.push(id);
                                self.tasks.insert(
                                    TaskId::new(*job_id, id.into()),
                                    TaskModel {
                                        deps: Vec::new(),
                                        rqv: resource_rq.clone(),
                                        crash_limit: task_desc.crash_limit,
                                        time_limit_ms: task_desc
                                            .time_limit
                                            .map(|d| d.as_millis() as u64),
                                        priority: 0,
                                        submit_step: step,
                                        terminal: None,
                                        running_on: None,
                                        starts: 0,
                                        crash_count: 0,
                                        cc_lenient: false,
                                    },
                                );
                            }
                        }
                        JobTaskDescription::Graph {
                            resource_rqs,
                            tasks,
                        } => {
                            for t in tasks {
                                new_ids.push(t.id.as_num());
                                self.tasks.insert(
                                    TaskId::new(*job_id, t.id),
                                    TaskModel {
                                        deps: t
                                            .task_deps
                                            .iter()
                                            .map(|d| TaskId::new(*job_id, *d))
                                            .collect(),
                                        rqv: resource_rqs[t.resource_rq_id.as_num() as usize]
                                            .clone(),
                                        crash_limit: t.task_desc.crash_limit,
                                        time_limit_ms: t
                                            .task_desc
                                            .time_limit
                                            .map(|d| d.as_millis() as u64),
                                        priority: 0,
                                        submit_step: step,
                                        terminal: None,
                                        running_on: None,
                                        starts: 0,
                                        crash_count: 0,
                                        cc_lenient: false,
                                    },
                                );
                            }
                        }
                    }
                    new_ids.sort_unstable();
                    // match with the oldest outstanding submit of the same target
                    let cc = self.current_client;
                    if let Some(s) = self
                        .submits
                        .iter_mut()
                        .find(|s| s.seen_event.is_none() && Some(s.client) == cc)
                    {
                        s.max_before = self
                            .prev_views
                            .get(job_id)
                            .and_then(|v| v.tasks.keys().max().copied());
                        s.seen_event = Some(new_ids.clone());
                        s.event_job = Some(*job_id);
                        let recorded = submit_fingerprint(&req);
                        if recorded != s.fingerprint {
                            obs.alarm(
                                "C13",
                                step,
                                "the submit recorded by the server differs from the request",
                                format!(
                                    "job {job_id}: sent {} recorded {}",
                                    s.fingerprint.chars().take(600).collect::<String>(),
                                    recorded.chars().take(600).collect::<String>()
                                ),
                            );
                        }
                    }
                    delta.submitted.push((*job_id, new_ids));
                }
                EventPayload::JobOpen(job_id, desc) => {
                    let jm = self.jobs.entry(*job_id).or_default();
                    jm.max_fails = desc.max_fails;
                }
                EventPayload::JobClose(_) => {}
                EventPayload::JobCompleted(job_id) => {
                    let jm = self.jobs.entry(*job_id).or_default();
                    jm.completed += 1;
                    delta.completed.push(*job_id);
                    if jm.completed > 1 {
                        obs.alarm(
                            "C13",
                            step,
                            "job reported completed more than once",
                            format!("job {job_id}"),
                        );
                    }
                }
                EventPayload::JobCancel { job_id, .. } => {
                    self.jobs.entry(*job_id).or_default().cancels += 1;
                }
                EventPayload::TaskStarted {
                    task_id,
                    instance_id,
                    worker_ids,
                    ..
                } => {
                    delta.started.push(*task_id);
                    let Some(tm) = self.tasks.get_mut(task_id) else {
                        obs.alarm(
                            "C01",
                            step,
                            "event for a task that was never accepted",
                            format!("TaskStarted {task_id}"),
                        );
                        continue;
                    };
                    if let Some((k, s)) = tm.terminal {
                        let d = format!(
                            "TaskStarted {task_id} (instance {instance_id}) after it ended {k:?} at step {s}"
                        );
                        obs.alarm("C01", step, "task reported started after its terminal outcome", d.clone());
                        if k == Kind::Canceled {
                            obs.alarm("C08", step, "canceled task reported started afterwards", d.clone());
                        }
                        if self.maxfail_aborted.contains(task_id) {
                            obs.alarm("C14", step, "task aborted by max-fails reported started afterwards", d);
                        }
                    }
                    tm.running_on = Some(worker_ids.to_vec());
                    tm.starts += 1;
                    // C03 (a)
                    for d in tm.deps.clone() {
                        let ok = self
                            .tasks
                            .get(&d)
                            .is_some_and(|dm| matches!(dm.terminal, Some((Kind::Finished, _))));
                        if !ok {
                            obs.alarm(
                                "C03",
                                step,
                                "task started although a dependency has not finished successfully",
                                format!(
                                    "{task_id} started, dependency {d} is {:?}",
                                    self.tasks.get(&d).map(|m| m.terminal)
                                ),
                            );
                        }
                    }
                }
                EventPayload::TaskFinished { task_id } => {
                    delta.ended.push(*task_id);
                    let ok_exec = self.exec_finished_ok.contains(task_id);
                    let Some(tm) = self.tasks.get_mut(task_id) else {
                        obs.alarm("C01", step, "event for a task that was never accepted", format!("TaskFinished {task_id}"));
                        continue;
                    };
                    if let Some((k, s)) = tm.terminal {
                        let d = format!("TaskFinished {task_id} after it ended {k:?} at step {s}");
                        obs.alarm("C01", step, "second terminal outcome reported", d.clone());
                        if k == Kind::Canceled {
                            obs.alarm("C08", step, "canceled task reported finished afterwards", d);
                        }
                    }
                    if tm.running_on.is_none() {
                        obs.alarm(
                            "C01",
                            step,
                            "finish reported without a preceding start",
                            format!("TaskFinished {task_id}"),
                        );
                    }
                    if !ok_exec {
                        obs.alarm(
                            "C01",
                            step,
                            "task reported finished but no execution of it completed successfully",
                            format!("TaskFinished {task_id}"),
                        );
                    }
                    tm.terminal = Some((Kind::Finished, step));
                    tm.running_on = None;
                }
                EventPayload::TaskFailed { task_id, error } => {
                    delta.ended.push(*task_id);
                    delta.failed.push((*task_id, error.clone()));
                    let Some(tm) = self.tasks.get_mut(task_id) else {
                        obs.alarm("C01", step, "event for a task that was never accepted", format!("TaskFailed {task_id}"));
                        continue;
                    };
                    if let Some((k, s)) = tm.terminal {
                        let d = format!("TaskFailed {task_id} after it ended {k:?} at step {s}");
                        obs.alarm("C01", step, "second terminal outcome reported", d.clone());
                        if k == Kind::Canceled {
                            obs.alarm("C08", step, "canceled task reported failed afterwards", d);
                        }
                    }
                    tm.terminal = Some((Kind::Failed, step));
                    tm.running_on = None;
                    let jm = self.jobs.entry(task_id.job_id()).or_default();
                    jm.n_failed += 1;
                    if let Some(m) = jm.max_fails {
                        // every failure that leaves the job above its limit is a moment at which
                        // "the number of failed tasks exceeds the limit": also a failure among tasks
                        // submitted into an open job after the limit had been exceeded before
                        if jm.n_failed > m {
                            if jm.exceeded_step.is_none() {
                                jm.exceeded_step = Some(step);
                            } else {
                                delta.maxfail_again = true;
                            }
                            if !delta.maxfail_exceeded.contains(&task_id.job_id()) {
                                delta.maxfail_exceeded.push(task_id.job_id());
                            }
                        }
                    }
                }
                EventPayload::TasksCanceled { task_ids } => {
                    for t in task_ids {
                        delta.ended.push(*t);
                        delta.canceled.push(*t);
                        self.canceled_tasks.insert(*t);
                        let Some(tm) = self.tasks.get_mut(t) else {
                            obs.alarm("C01", step, "event for a task that was never accepted", format!("TasksCanceled {t}"));
                            continue;
                        };
                        if let Some((k, s)) = tm.terminal {
                            obs.alarm(
                                "C01",
                                step,
                                "second terminal outcome reported",
                                format!("TasksCanceled {t} after it ended {k:?} at step {s}"),
                            );
                        }
                        tm.terminal = Some((Kind::Canceled, step));
                        tm.running_on = None;
                    }
                }
                EventPayload::TasksAborted { task_ids } => {
                    for t in task_ids {
                        delta.ended.push(*t);
                        delta.aborted.push(*t);
                        let Some(tm) = self.tasks.get_mut(t) else {
                            obs.alarm("C01", step, "event for a task that was never accepted", format!("TasksAborted {t}"));
                            continue;
                        };
                        if let Some((k, s)) = tm.terminal {
                            obs.alarm(
                                "C01",
                                step,
                                "second terminal outcome reported",
                                format!("TasksAborted {t} after it ended {k:?} at step {s}"),
                            );
                        }
                        tm.terminal = Some((Kind::Aborted, step));
                        tm.running_on = None;
                    }
                }
                EventPayload::WorkerLost(w, reason) => {
                    delta.lost.push((*w, *reason));
                    // tasks reported running with root == w are requeued
                    for (tid, tm) in self.tasks.iter_mut() {
                        if let Some(ws) = &tm.running_on {
                            if ws.first() == Some(w) {
                                delta.lost_running.push((*tid, *w, *reason));
                                tm.running_on = None;
                            } else if ws.contains(w) {
                                // documented leniency: loss of a non-root node of a multi-node task
                                tm.cc_lenient = true;
                            }
                        }
                    }
                }
                _ => {}
            }
        }
        delta
    }

    fn process_launch_log(&mut self, world: &World, obs: &mut Obs) {
        self.process_launch_log_until(world, obs, usize::MAX);
    }

    fn process_launch_log_until(&mut self, world: &World, obs: &mut Obs, end: usize) {
        let l = world.launch.borrow();
        while self.l_idx < l.log.len().min(end) {
            let (step, _ms, ev) = &l.log[self.l_idx];
            self.l_idx += 1;
            let step = *step;
            match ev {
                LEvent::Build {
                    exec,
                    worker,
                    task,
                    instance,
                    ok,
                    nodes,
                    ..
                } => {
                    obs.class("exec");
                    self.exec_info
                        .insert(*exec, (*worker, *task, instance.as_num()));
                    let _ = ok;
                    // C06 (c)
                    if let Some(prev) = self.last_build_instance.get(task) {
                        if instance.as_num() <= *prev {
                            obs.alarm(
                                "C06",
                                step,
                                "re-execution does not carry a larger instance id",
                                format!(
                                    "{task} executed on w{worker} with instance {instance}, an earlier execution had instance {prev}"
                                ),
                            );
                        }
                        obs.class("re-execution");
                    }
                    self.last_build_instance.insert(*task, instance.as_num());
                    // C06 (b)
                    if self.retract_confirmed.contains(&(*worker, *task)) {
                        obs.alarm(
                            "C06",
                            step,
                            "worker started a task after confirming that it gave it back",
                            format!("{task} on w{worker}"),
                        );
                    }
                    // C08
                    if self.cancel_delivered.contains(&(*worker, *task)) {
                        obs.alarm(
                            "C08",
                            step,
                            "worker started a task after it processed the cancel for it",
                            format!("{task} on w{worker} (instance {instance})"),
                        );
                    }
                    // C03 (a) on the worker side
                    if let Some(tm) = self.tasks.get(task) {
                        for d in &tm.deps {
                            let ok = self
                                .tasks
                                .get(d)
                                .is_some_and(|dm| matches!(dm.terminal, Some((Kind::Finished, _))));
                            if !ok {
                                obs.alarm(
                                    "C03",
                                    step,
                                    "task executed although a dependency has not finished successfully",
                                    format!("{task} executed on w{worker}, dependency {d} is {:?}", self.tasks.get(d).map(|m| m.terminal)),
                                );
                            }
                        }
                        if tm.terminal.is_some() && self.maxfail_aborted.contains(task) {
                            obs.class("build-after-maxfail-abort");
                        }
                    }
                    // C05 multi-node: the node list
                    if !nodes.is_empty() {
                        obs.class("mn-exec");
                    }
                }
                LEvent::Stop { .. } => {}
                LEvent::End { exec, kind, .. } => {
                    if *kind == EndKind::Finished {
                        if let Some((_, t, _)) = self.exec_info.get(exec) {
                            self.exec_finished_ok.insert(*t);
                        }
                    }
                }
            }
        }
    }

    /// Runs after every (micro) step.
    pub fn after_step(&mut self, world: &World, obs: &mut Obs) {
        self.micro += 1;
        let step = world.step_no();

        // ---- delivered messages (a delivery precedes the executions it triggers)
        while self.tw_idx < obs.to_worker.len() {
            let m = obs.to_worker[self.tw_idx].clone();
            self.tw_idx += 1;
            if !m.processed {
                continue;
            }
            // what the launcher logged before this message was handed over happened before it
            self.process_launch_log_until(world, obs, m.log_pos);
            match &m.body {
                ToW::Compute(items) => {
                    for it in items {
                        self.retract_confirmed.remove(&(m.worker, it.task));
                    }
                }
                ToW::Cancel(ids) => {
                    for t in ids {
                        self.cancel_delivered.insert((m.worker, *t));
                    }
                    obs.class("cancel-delivered");
                    // every live execution of these tasks on this worker must have been told to stop
                    let l = world.launch.borrow();
                    for t in ids {
                        for (exec, (w, tt, _)) in &self.exec_info {
                            if w == &m.worker
                                && tt == t
                                && l.live.get(exec).is_some_and(|e| e.start_step < m.step && !e.stopping)
                            {
                                obs.alarm(
                                    "C08",
                                    m.step,
                                    "execution of a canceled task was not stopped when the cancel was delivered",
                                    format!("{t} on w{}", m.worker),
                                );
                            }
                        }
                    }
                }
                ToW::Retract(_) => {
                    obs.class("retract-delivered");
                }
                _ => {}
            }
        }
        self.process_launch_log(world, obs);
        while self.tss_idx < obs.to_server_sent.len() {
            let m = obs.to_server_sent[self.tss_idx].clone();
            self.tss_idx += 1;
            if let FromW::RetractResponse(ids) = &m.body {
                for t in ids {
                    self.retract_confirmed.insert((m.worker, *t));
                }
                if !ids.is_empty() {
                    obs.class("retract-confirmed");
                }
            }
            if let FromW::Update(ups) = &m.body {
                for u in ups {
                    match u {
                        Upd::Reject(_, Some(_)) => obs.class("reject"),
                        Upd::Reject(_, None) => obs.class("hard-reject"),
                        Upd::RunningPrefilled(..) => obs.class("prefilled-start"),
                        Upd::Enable(..) => obs.class("enable-request"),
                        _ => {}
                    }
                }
            }
        }
        while self.ts_idx < obs.to_server.len() {
            if let FromW::Update(ups) = &obs.to_server[self.ts_idx].body {
                for u in ups {
                    if let Upd::RunningPrefilled(t, _) = u {
                        self.prefill_started.insert(*t);
                    }
                }
            }
            self.ts_idx += 1;
        }

        // ---- events
        let views_before = self.prev_views.clone();
        let delta = self.process_events(world, obs);
        let views = job_views(world);
        let snap = world.snapshot();

        for (j, v) in &views {
            if v.status.is_none() {
                obs.alarm(
                    "C13",
                    step,
                    "job_status panics on the reported counters",
                    format!("job {j} counters {:?} n_tasks {}", v.counters, v.n_tasks),
                );
            }
        }

        self.check_c13(step, &views, &views_before, &delta, obs);
        self.check_running_agreement(world, step, &snap, obs);
        self.check_c02_bijection(step, &views, &snap, obs);
        self.check_c05(world, step, &snap, obs);
        self.check_c06_live(world, step, obs);
        self.check_rest_executions(world, step, &snap, obs);
        self.check_c07(world, step, &views, &snap, &delta, obs);
        self.check_c08(step, &views, &views_before, &snap, &delta, obs);
        self.check_c14_c03(world, step, &views_before, &views, &delta, obs);
        self.check_time_limits(world, step, obs);
        self.check_snapshot_consistency(step, &snap, obs);
        self.check_c04(world, step, &snap, obs);

        // classes
        if !snap.redirects.is_empty() {
            obs.class("redirect");
        }
        if snap
            .tasks
            .iter()
            .any(|t| matches!(t.state, TaskStateSnap::Retracting { .. }))
        {
            obs.class("retracting");
        }
        if snap
            .tasks
            .iter()
            .any(|t| matches!(t.state, TaskStateSnap::Prefilled { .. }))
        {
            obs.class("prefilled");
        }
        if snap
            .tasks
            .iter()
            .any(|t| matches!(t.state, TaskStateSnap::RunningMultiNode(_)))
        {
            obs.class("mn-running");
        }
        if !delta.lost.is_empty() {
            obs.class("worker-lost");
        }
        if !delta.lost_running.is_empty() {
            obs.class("lost-while-running");
        }
        if !delta.canceled.is_empty() {
            obs.class("tasks-canceled");
        }
        if !delta.aborted.is_empty() {
            obs.class("tasks-aborted");
        }
        if !delta.failed.is_empty() {
            obs.class("task-failed");
        }
        if !delta.maxfail_exceeded.is_empty() {
            obs.class("maxfails-exceeded");
        }
        if delta.maxfail_again {
            obs.class("failure-above-the-limit-after-a-later-submit");
        }

        self.prev_views = views;
        self.prev_snap = Some(snap);
    }

    fn check_c13(
        &mut self,
        step: u32,
        views: &BTreeMap<JobId, JobView>,
        before: &BTreeMap<JobId, JobView>,
        delta: &MicroDelta,
        obs: &mut Obs,
    ) {
        for (j, v) in views {
            let mut c = (0u32, 0u32, 0u32, 0u32, 0u32);
            let mut waiting = 0u32;
            for k in v.tasks.values() {
                match k {
                    Kind::Waiting => waiting += 1,
                    Kind::Running => c.0 += 1,
                    Kind::Finished => c.1 += 1,
                    Kind::Failed => c.2 += 1,
                    Kind::Canceled => c.3 += 1,
                    Kind::Aborted => c.4 += 1,
                }
            }
            if c != v.counters || v.n_tasks as usize != v.tasks.len() {
                obs.alarm(
                    "C13",
                    step,
                    "job counters differ from the task states",
                    format!(
                        "job {j}: reported (running, finished, failed, canceled, aborted) = {:?} n_tasks={} but the tasks are {:?} ({} tasks)",
                        v.counters, v.n_tasks, c, v.tasks.len()
                    ),
                );
            }
            // documented job state
            let expected = if c.0 > 0 {
                Status::Running
            } else if waiting > 0 {
                Status::Waiting
            } else if c.2 > 0 {
                Status::Failed
            } else if c.4 > 0 {
                Status::Aborted
            } else if c.3 > 0 {
                Status::Canceled
            } else if v.open {
                Status::Opened
            } else {
                Status::Finished
            };
            if let Some(s) = v.status {
                if s != expected && c == v.counters {
                    obs.alarm(
                        "C13",
                        step,
                        "job state does not follow the documented rules",
                        format!("job {j}: reported {s:?}, documented rules give {expected:?}"),
                    );
                }
            }
            // completion exactly once, at the right moment
            let done_now = !v.open && waiting == 0 && c.0 == 0;
            let jm = self.jobs.entry(*j).or_default();
            let completed_now = delta.completed.contains(j);
            if completed_now && !done_now {
                obs.alarm(
                    "C13",
                    step,
                    "job reported completed although it is open or has unfinished tasks",
                    format!("job {j} open={} waiting={waiting} running={}", v.open, c.0),
                );
            }
            if done_now && jm.completed == 0 {
                obs.alarm(
                    "C13",
                    step,
                    "closed job with only terminal tasks was not reported completed",
                    format!("job {j}"),
                );
            }
            if completed_now {
                obs.class("job-completed");
                let was_done = before.get(j).is_some_and(|b| {
                    !b.open && b.tasks.values().all(|k| k.terminal())
                });
                if was_done {
                    obs.alarm(
                        "C13",
                        step,
                        "job completion reported later than the moment it became complete",
                        format!("job {j}"),
                    );
                }
            }
        }
        // forgotten jobs must have been terminated
        for (j, b) in before {
            if !views.contains_key(j) {
                self.forgotten.insert(*j);
                obs.class("job-forgotten");
                let terminated = !b.open && b.tasks.values().all(|k| k.terminal());
                if let Some((sel, filter)) = &self.current_sel {
                    let existing: Vec<u32> = before.keys().map(|j| j.as_num()).collect();
                    if !sel.resolve(&existing).contains(&j.as_num()) {
                        obs.alarm(
                            "C13",
                            step,
                            "a job that the request did not select disappeared",
                            format!("job {j}, selector {sel:?}"),
                        );
                    }
                    if let Some(st) = &b.status {
                        if !filter.is_empty() && !filter.contains(st) {
                            obs.alarm(
                                "C13",
                                step,
                                "a job whose status is not in the request's filter was forgotten",
                                format!("job {j} status {st:?} filter {filter:?}"),
                            );
                        }
                    }
                }
                if !terminated {
                    obs.alarm(
                        "C13",
                        step,
                        "a job that is not terminated disappeared",
                        format!("job {j}"),
                    );
                }
            }
        }
        // submits: the job task set grows exactly by the new ids
        for (j, new_ids) in &delta.submitted {
            let old: BTreeSet<u32> = before
                .get(j)
                .map(|b| b.tasks.keys().copied().collect())
                .unwrap_or_default();
            let now: BTreeSet<u32> = views
                .get(j)
                .map(|b| b.tasks.keys().copied().collect())
                .unwrap_or_default();
            let mut expect = old.clone();
            let mut dup = false;
            for id in new_ids {
                if !expect.insert(*id) {
                    dup = true;
                }
            }
            if dup {
                obs.alarm(
                    "C13",
                    step,
                    "submit reused an existing task id",
                    format!("job {j} new ids {new_ids:?}"),
                );
            }
            if now != expect && delta.submitted.iter().filter(|(jj, _)| jj == j).count() == 1 {
                obs.alarm(
                    "C13",
                    step,
                    "job task set after a submit is not old + new",
                    format!("job {j}: old {old:?} new {new_ids:?} now {now:?}"),
                );
            }
            if old.len() > 0 {
                obs.class("submit-into-open-job");
            }
        }
    }

    /// "Running" means the same in the job layer and in the scheduler: a task that the job layer
    /// shows as running on a worker is run there by the scheduler, with the same instance and
    /// variant, and vice versa (single-node tasks; a multi-node task is held by the scheduler
    /// from its placement on, before its start is announced).
    fn check_running_agreement(&mut self, world: &World, step: u32, snap: &CoreSnapshot, obs: &mut Obs) {
        use hyperqueue::server::job::JobTaskState;
        let st = world.state_ref.get();
        for job in st.jobs() {
            for (tid, info) in job.tasks.iter() {
                let id = TaskId::new(job.job_id, *tid);
                let core = snap.tasks.iter().find(|t| t.id == id);
                match &info.state {
                    JobTaskState::Running { started_data } => {
                        let ok = match core.map(|t| &t.state) {
                            Some(TaskStateSnap::Running { worker_id, rv_id }) => {
                                started_data.worker_ids.len() == 1
                                    && started_data.worker_ids[0] == *worker_id
                                    && started_data.rv_id.as_num() == *rv_id
                            }
                            // (the scheduler releases the other nodes of a multi-node task
                            //  when one of them is lost; only the root is compared)
                            Some(TaskStateSnap::RunningMultiNode(ws)) => {
                                started_data.worker_ids.first() == ws.first()
                            }
                            _ => false,
                        };
                        if !ok {
                            obs.alarm(
                                "C13",
                                step,
                                "task is shown as running although the scheduler does not run it there",
                                format!(
                                    "{id}: job layer says running on {:?} variant {}, scheduler state {:?}",
                                    started_data.worker_ids,
                                    started_data.rv_id.as_num(),
                                    core.map(|t| &t.state)
                                ),
                            );
                        }
                    }
                    JobTaskState::Waiting => {
                        if let Some(TaskStateSnap::Running { worker_id, .. }) = core.map(|t| &t.state) {
                            obs.alarm(
                                "C13",
                                step,
                                "scheduler runs a task that the job layer shows as waiting",
                                format!("{id} on w{worker_id}"),
                            );
                        }
                    }
                    _ => {}
                }
            }
        }
    }

    fn check_c02_bijection(
        &mut self,
        step: u32,
        views: &BTreeMap<JobId, JobView>,
        snap: &CoreSnapshot,
        obs: &mut Obs,
    ) {
        let mut shown: BTreeSet<TaskId> = BTreeSet::new();
        for (j, v) in views {
            for (id, k) in &v.tasks {
                if !k.terminal() {
                    shown.insert(TaskId::new(*j, (*id).into()));
                }
            }
        }
        let known: BTreeSet<TaskId> = snap.tasks.iter().map(|t| t.id).collect();
        if shown != known {
            let phantom: Vec<&TaskId> = shown.difference(&known).take(5).collect();
            let orphan: Vec<&TaskId> = known.difference(&shown).take(5).collect();
            obs.alarm(
                "C02",
                step,
                if !phantom.is_empty() {
                    "phantom tasks: shown as unfinished to the user but unknown to the scheduler"
                } else {
                    "orphan tasks: known to the scheduler but not unfinished in any job"
                },
                format!("phantom (first 5): {phantom:?}; orphan (first 5): {orphan:?}"),
            );
        }
    }

    fn rq_of<'a>(snap: &'a CoreSnapshot, rq_id: u32, rv: u8) -> Option<&'a tako::resources::ResourceRequest> {
        snap.rq_map
            .get(rq_id as usize)
            .and_then(|rqv| rqv.requests().get(rv as usize))
    }

    fn check_c05(&mut self, world: &World, step: u32, snap: &CoreSnapshot, obs: &mut Obs) {
        let nres = snap.resource_names.len();
        for w in &snap.workers {
            let mut used = vec![0u64; nres.max(w.total.len())];
            let mut reserved = used.clone();
            let total_of = |i: usize| w.total.get(i).copied().unwrap_or(0);
            for t in &snap.tasks {
                let (on_w, rv) = match &t.state {
                    TaskStateSnap::Assigned { worker_id, rv_id }
                    | TaskStateSnap::Running { worker_id, rv_id } => (*worker_id == w.id, *rv_id),
                    _ => (false, 0),
                };
                if on_w {
                    if let Some(rq) = Self::rq_of(snap, t.rq_id, rv) {
                        for e in rq.entries() {
                            let i = e.resource_id.as_num() as usize;
                            if i >= used.len() {
                                used.resize(i + 1, 0);
                                reserved.resize(i + 1, 0);
                            }
                            let a = match e.request.amount_or_none_if_all() {
                                Some(a) => a.total_fractions(),
                                None => total_of(i),
                            };
                            used[i] += a;
                            if total_of(i) < a {
                                obs.alarm(
                                    "C05",
                                    step,
                                    "task placed on a worker that does not provide the requested resource amount",
                                    format!("{} on w{} resource {} needs {} has {}", t.id, w.id, i, a, total_of(i)),
                                );
                            }
                        }
                    }
                }
            }
            for (t, target, rv) in &snap.redirects {
                if *target == w.id {
                    if let Some(ts) = snap.tasks.iter().find(|x| x.id == *t) {
                        if let Some(rq) = Self::rq_of(snap, ts.rq_id, *rv) {
                            for e in rq.entries() {
                                let i = e.resource_id.as_num() as usize;
                                if i >= reserved.len() {
                                    used.resize(i + 1, 0);
                                    reserved.resize(i + 1, 0);
                                }
                                reserved[i] += match e.request.amount_or_none_if_all() {
                                    Some(a) => a.total_fractions(),
                                    None => total_of(i),
                                };
                            }
                        }
                    }
                }
            }
            // A worker starts prefilled tasks by itself as soon as a task of the same request
            // ends. Such a start is not a placement decision of the server; when it races with a
            // placement that uses the same freed resources, the server-side sum is exceeded until
            // the worker's soft reject arrives, and the saturating counters stay off afterwards.
            // From that moment the worker is excluded from the overbooking / drift checks.
            let has_prefill_started = snap.tasks.iter().any(|t| {
                matches!(&t.state, TaskStateSnap::Running { worker_id, .. } if *worker_id == w.id)
                    && self.prefill_started.contains(&t.id)
            });
            // Only the sum is excused, and only while such a task is running there: the free
            // amounts the server keeps must stay exact (zero while overbooked).
            let excused = has_prefill_started
                && (0..used.len()).any(|i| used[i] + reserved[i] > total_of(i));
            if excused && self.prefill_overcommitted.insert(w.id) {
                obs.class("overcommit-by-worker-side-prefill-start");
            }
            for i in 0..used.len() {
                if used[i] > total_of(i) && !excused {
                    obs.alarm(
                        "C05",
                        step,
                        "worker overbooked: placed tasks request more than the worker provides",
                        format!(
                            "w{} resource {:?}: placed {} of {} (fractions)",
                            w.id,
                            snap.resource_names.get(i),
                            used[i],
                            total_of(i)
                        ),
                    );
                }
            }
            if let Some(free) = &w.free {
                for i in 0..used.len() {
                    let f = free.get(i).copied().unwrap_or(0);
                    let expect =
                        (total_of(i) as i64 - used[i] as i64 - reserved[i] as i64).max(if excused { 0 } else { i64::MIN });
                    if f as i64 != expect {
                        obs.alarm(
                            "C05",
                            step,
                            "server-side free resources of a worker drifted from its placed tasks",
                            format!(
                                "w{} resource {:?}: free {} but total {} - placed {} - reserved for redirects {} = {}",
                                w.id,
                                snap.resource_names.get(i),
                                f,
                                total_of(i),
                                used[i],
                                reserved[i],
                                expect
                            ),
                        );
                    }
                }
            }
            if w.free.is_none() {
                // multi-node: nothing else may be placed on this worker
                for t in &snap.tasks {
                    let on = match &t.state {
                        TaskStateSnap::Assigned { worker_id, .. }
                        | TaskStateSnap::Running { worker_id, .. }
                        | TaskStateSnap::Prefilled { worker_id } => *worker_id == w.id,
                        _ => false,
                    };
                    if on {
                        obs.alarm(
                            "C05",
                            step,
                            "single-node task placed on a worker held by a multi-node task",
                            format!("{} on w{}", t.id, w.id),
                        );
                    }
                }
            }
        }
        // multi-node placements
        for t in &snap.tasks {
            if let TaskStateSnap::RunningMultiNode(ws) = &t.state {
                let newly = !self.prev_snap.as_ref().is_some_and(|p| {
                    p.tasks.iter().any(|x| {
                        x.id == t.id && matches!(&x.state, TaskStateSnap::RunningMultiNode(_))
                    })
                });
                if newly {
                    obs.class("mn-placement");
                    let n = snap
                        .rq_map
                        .get(t.rq_id as usize)
                        .map(|r| r.requests()[0].n_nodes())
                        .unwrap_or(0);
                    let distinct: BTreeSet<&WorkerId> = ws.iter().collect();
                    if ws.len() != n as usize || distinct.len() != ws.len() {
                        obs.alarm(
                            "C05",
                            step,
                            "multi-node task not given exactly the requested number of distinct workers",
                            format!("{} requested {} nodes, got {:?}", t.id, n, ws),
                        );
                    }
                    let groups: BTreeSet<&String> = ws
                        .iter()
                        .filter_map(|w| snap.workers.iter().find(|x| x.id == *w))
                        .map(|w| &w.group)
                        .collect();
                    if groups.len() > 1 {
                        obs.alarm(
                            "C05",
                            step,
                            "multi-node task spans several worker groups",
                            format!("{} on {:?} groups {:?}", t.id, ws, groups),
                        );
                    }
                    for w in ws {
                        match snap.workers.iter().find(|x| x.id == *w) {
                            None => obs.alarm(
                                "C05",
                                step,
                                "multi-node task placed on a worker that is not connected",
                                format!("{} on w{}", t.id, w),
                            ),
                            Some(x) => {
                                if x.mn_task.map(|m| m.0) != Some(t.id) {
                                    obs.alarm(
                                        "C05",
                                        step,
                                        "multi-node worker does not hold the task it was given to",
                                        format!("{} on w{} holds {:?}", t.id, w, x.mn_task),
                                    );
                                }
                                if let Some(p) = &self.prev_snap {
                                    if let Some(px) = p.workers.iter().find(|y| y.id == *w) {
                                        if !px.assigned.is_empty() || px.mn_task.is_some() {
                                            obs.alarm(
                                                "C05",
                                                step,
                                                "multi-node task placed on a worker that was not free",
                                                format!("{} on w{} which had {:?} {:?}", t.id, w, px.assigned, px.mn_task),
                                            );
                                        }
                                    }
                                }
                            }
                        }
                    }
                }
            }
        }
        // note the remaining life time of the target when a redirect first shows up; forget
        // redirects that are gone (after the messages of this step were judged, see below)
        for (t, target, _) in &snap.redirects {
            if !self.redirect_remaining.contains_key(&(*t, *target)) {
                let rem = snap.workers.iter().find(|w| w.id == *target).and_then(|w| w.remaining);
                self.redirect_remaining.insert((*t, *target), rem);
            }
        }
        // ComputeTasks sent in this step: capability and life time
        while self.tws_idx < obs.to_worker_sent.len() {
            let m = obs.to_worker_sent[self.tws_idx].clone();
            self.tws_idx += 1;
            if let ToW::Compute(items) = &m.body {
                let Some(w) = snap.workers.iter().find(|w| w.id == m.worker) else {
                    continue;
                };
                for it in items {
                    let Some(v) = it.variant else {
                        obs.class("prefill-sent");
                        continue;
                    };
                    let Some(rq) = Self::rq_of(snap, it.rq_id, v) else {
                        continue;
                    };
                    if !it.nodes.is_empty() {
                        continue;
                    }
                    for e in rq.entries() {
                        let i = e.resource_id.as_num() as usize;
                        let total = w.total.get(i).copied().unwrap_or(0);
                        let ok = match e.request.amount_or_none_if_all() {
                            Some(a) => a.total_fractions() <= total,
                            None => total > 0,
                        };
                        if !ok {
                            obs.alarm(
                                "C05",
                                m.step,
                                "task sent to a worker that does not provide a requested resource",
                                format!("{} to w{}: resource {:?}", it.task, w.id, snap.resource_names.get(i)),
                            );
                        }
                    }
                    let min_time = rq.min_time();
                    if !min_time.is_zero() {
                        obs.class("time-request-placed");
                        // a redirect is decided in a scheduling round and carried out when the
                        // source worker has answered (or is gone): the life time counts at the
                        // decision (the remaining time noted when the redirect first showed up)
                        let decided = self.redirect_remaining.get(&(it.task, m.worker)).copied();
                        let rem_at_decision = match decided {
                            Some(r) => {
                                obs.class("redirect-carried-out");
                                r
                            }
                            None => w.remaining,
                        };
                        if let Some(rem) = rem_at_decision {
                            // 2 s tolerance: the scheduler's `now` and the snapshot's differ by real time
                            if rem + std::time::Duration::from_secs(2) < min_time {
                                obs.alarm(
                                    "C05",
                                    m.step,
                                    "task placed on a worker without enough remaining life time",
                                    format!("{} to w{}: needs {:?}, remaining {:?}", it.task, w.id, min_time, rem),
                                );
                            }
                        }
                    }
                    if m.step == step {
                        let placed_on_busy = !w.assigned.is_empty();
                        if placed_on_busy && items.len() >= 2 {
                            obs.class("multi-placement");
                        }
                    }
                }
            }
            if let ToW::Cancel(_) = &m.body {
                obs.class("cancel-sent");
            }
        }
        self.redirect_remaining
            .retain(|k, _| snap.redirects.iter().any(|(t, w, _)| (*t, *w) == *k));
        let _ = world;
    }

    fn check_c06_live(&mut self, world: &World, step: u32, obs: &mut Obs) {
        let l = world.launch.borrow();
        let mut by_task: BTreeMap<TaskId, Vec<WorkerId>> = BTreeMap::new();
        for e in l.live.values() {
            let connected = world.workers.get(&e.worker).is_some_and(|w| w.alive)
                && !l.dead_workers.contains(&e.worker);
            if connected {
                by_task.entry(e.task).or_default().push(e.worker);
            }
        }
        for (t, ws) in by_task {
            if ws.len() > 1 {
                obs.alarm(
                    "C06",
                    step,
                    "the same task is executing on two connected workers",
                    format!("{t} live on {ws:?}"),
                );
            }
        }
    }

    /// When no message is in flight in either direction and the scheduler has nothing to do,
    /// every execution that is live on a connected worker is one the server considers running
    /// there. Otherwise the worker was never told to stop it (C08 for canceled tasks) or the
    /// server forgot an execution that can later run next to a re-execution (C06).
    fn check_rest_executions(&mut self, world: &World, step: u32, snap: &CoreSnapshot, obs: &mut Obs) {
        if world.server.scheduling_requested()
            || world
                .workers
                .values()
                .any(|w| !w.q.is_empty() || !w.r.is_empty() || !w.alive)
        {
            return;
        }
        obs.class("message-rest");
        // server and workers agree on who holds what: an assigned task was started or rejected,
        // a retraction was answered, the backlog of a worker is exactly what the server prefilled
        let worker_ok = |w: &WorkerId| {
            world.workers.get(w).is_some_and(|x| x.alive)
                && !world.launch.borrow().dead_workers.contains(w)
        };
        for ts in &snap.tasks {
            match &ts.state {
                // (only a task that the worker does not know at all is judged: a worker-side
                //  queue of accepted tasks would be a legitimate design)
                TaskStateSnap::Assigned { worker_id, .. } | TaskStateSnap::Retracting { worker_id }
                    if worker_ok(worker_id) =>
                {
                    let wsnap = world.workers[worker_id].sim.snapshot();
                    let known = wsnap.running.iter().any(|r| r.task_id == ts.id)
                        || wsnap.prefilled.iter().any(|(_, b)| b.contains(&ts.id));
                    if !known {
                        obs.alarm(
                            "C02",
                            step,
                            "task stays assigned to a connected worker that neither started nor rejected it, with no message in flight",
                            format!("{} ({:?}) is unknown to w{worker_id}", ts.id, ts.state),
                        );
                    }
                }
                TaskStateSnap::Prefilled { worker_id } if worker_ok(worker_id) => {
                    let held = world.workers[worker_id]
                        .sim
                        .snapshot()
                        .prefilled
                        .iter()
                        .any(|(_, ts2)| ts2.contains(&ts.id));
                    if !held {
                        obs.alarm(
                            "C02",
                            step,
                            "task prefilled on a connected worker is not in that worker's backlog, with no message in flight",
                            format!("{} on w{worker_id}", ts.id),
                        );
                    }
                }
                _ => {}
            }
        }
        for (w, ws) in &world.workers {
            if !worker_ok(w) {
                continue;
            }
            for (_, backlog) in &ws.sim.snapshot().prefilled {
                for t in backlog {
                    // the server must still count the task as held by this worker (in whatever
                    // state); otherwise it can run a second time somewhere else
                    let ok = snap.tasks.iter().any(|x| {
                        x.id == *t
                            && match &x.state {
                                TaskStateSnap::Prefilled { worker_id }
                                | TaskStateSnap::Retracting { worker_id }
                                | TaskStateSnap::Assigned { worker_id, .. }
                                | TaskStateSnap::Running { worker_id, .. } => worker_id == w,
                                _ => false,
                            }
                    });
                    if !ok {
                        obs.alarm(
                            "C06",
                            step,
                            "worker keeps a task in its backlog that the server no longer counts as held by it, with no message in flight",
                            format!(
                                "{t} in the backlog of w{w}; server state {:?}",
                                snap.tasks.iter().find(|x| x.id == *t).map(|x| &x.state)
                            ),
                        );
                    }
                }
            }
        }
        let l = world.launch.borrow();
        for e in l.live.values() {
            if l.dead_workers.contains(&e.worker)
                || !world.workers.get(&e.worker).is_some_and(|w| w.alive)
                || !snap.workers.iter().any(|w| w.id == e.worker)
                || e.resolver.is_none()
                || e.stopping
            {
                continue;
            }
            let ts = snap.tasks.iter().find(|t| t.id == e.task);
            let ok = match ts.map(|t| &t.state) {
                Some(TaskStateSnap::Running { worker_id, .. }) => *worker_id == e.worker,
                Some(TaskStateSnap::RunningMultiNode(ws)) => ws.contains(&e.worker),
                _ => false,
            };
            if !ok {
                let canceled = self.canceled_tasks.contains(&e.task);
                obs.alarm(
                    if canceled { "C08" } else { "C06" },
                    step,
                    if canceled {
                        "execution of a canceled task continues on a connected worker with no message in flight (worker never told to stop)"
                    } else {
                        "execution continues on a connected worker although the server does not consider the task running there and no message is in flight"
                    },
                    format!(
                        "{} instance {} on w{} (started in step {}); server state {:?}",
                        e.task,
                        e.instance,
                        e.worker,
                        e.start_step,
                        ts.map(|t| &t.state)
                    ),
                );
            }
        }
    }

    fn check_c07(
        &mut self,
        world: &World,
        step: u32,
        views: &BTreeMap<JobId, JobView>,
        snap: &CoreSnapshot,
        delta: &MicroDelta,
        obs: &mut Obs,
    ) {
        let _ = world;
        let failed_now: BTreeMap<TaskId, &String> =
            delta.failed.iter().map(|(t, e)| (*t, e)).collect();
        let aborted_now: BTreeSet<TaskId> = delta.aborted.iter().copied().collect();
        let canceled_now: BTreeSet<TaskId> = delta.canceled.iter().copied().collect();
        let mut expected_failed: BTreeSet<TaskId> = BTreeSet::new();
        // Documented leniency: a multi-node task is in the running state on the server from the
        // moment it is assigned; if one of its workers is lost before the start was announced the
        // statement does not say whether that counts as "running". Both behaviours are accepted.
        if let Some(p) = &self.prev_snap {
            for (w, _) in &delta.lost {
                for ts in &p.tasks {
                    if let TaskStateSnap::RunningMultiNode(ws) = &ts.state {
                        if ws.contains(w) {
                            if let Some(tm) = self.tasks.get_mut(&ts.id) {
                                if tm.running_on.is_none()
                                    && !delta.lost_running.iter().any(|(t, _, _)| *t == ts.id)
                                {
                                    tm.cc_lenient = true;
                                    obs.class("mn-lost-before-start");
                                }
                            }
                        }
                    }
                }
            }
        }
        for (t, w, reason) in &delta.lost_running {
            let Some(tm) = self.tasks.get_mut(t) else {
                continue;
            };
            if tm.cc_lenient {
                continue;
            }
            let failure = matches!(
                reason,
                LostWorkerReason::ConnectionLost | LostWorkerReason::HeartbeatLost
            );
            if failure {
                obs.class("failure-loss-while-running");
            } else {
                obs.class("nonfailure-loss-while-running");
            }
            let should_fail = match tm.crash_limit {
                CrashLimit::NeverRestart => true,
                CrashLimit::MaxCrashes(n) => {
                    if failure {
                        tm.crash_count += 1;
                        tm.crash_count >= n as u32
                    } else {
                        false
                    }
                }
                CrashLimit::Unlimited => {
                    if failure {
                        tm.crash_count += 1;
                    }
                    false
                }
            };
            if matches!(tm.crash_limit, CrashLimit::NeverRestart) && failure {
                tm.crash_count += 1;
            }
            if aborted_now.contains(t) || canceled_now.contains(t) {
                // ended in the same step for another documented reason (max-fails of the job)
                continue;
            }
            if should_fail {
                expected_failed.insert(*t);
                obs.class("crash-limit-reached");
                match failed_now.get(t) {
                    None => obs.alarm(
                        "C07",
                        step,
                        "task that reached its crash limit was not failed when its worker was lost",
                        format!(
                            "{t} running on lost w{w} ({reason:?}), crash limit {}, crash count {}",
                            tm.crash_limit, tm.crash_count
                        ),
                    ),
                    Some(err) => {
                        // "explanatory": the wording is free, it must say something and must
                        // not be the error of an ordinary task failure
                        if err.trim().is_empty() || err.contains("(harness)") {
                            obs.alarm(
                                "C07",
                                step,
                                "task failed by a worker loss without an explanatory error",
                                format!("{t}: {err}"),
                            );
                        }
                    }
                }
            } else {
                if failed_now.contains_key(t) {
                    obs.alarm(
                        "C07",
                        step,
                        "task failed by a worker loss although its crash limit was not reached",
                        format!(
                            "{t} running on lost w{w} ({reason:?}), crash limit {}, crash count {}: {}",
                            tm.crash_limit, tm.crash_count, failed_now[t]
                        ),
                    );
                } else {
                    // must be runnable again
                    let k = views
                        .get(&t.job_id())
                        .and_then(|v| v.tasks.get(&t.job_task_id().as_num()));
                    if k != Some(&Kind::Waiting) && k != Some(&Kind::Running) {
                        obs.alarm(
                            "C07",
                            step,
                            "task of a lost worker is neither failed nor runnable again",
                            format!("{t} is {k:?}"),
                        );
                    }
                    match snap.tasks.iter().find(|x| x.id == *t) {
                        None => obs.alarm(
                            "C07",
                            step,
                            "task of a lost worker disappeared from the scheduler",
                            format!("{t}"),
                        ),
                        Some(ts) => {
                            if ts.crash_counter != tm.crash_count {
                                obs.alarm(
                                    "C07",
                                    step,
                                    "crash count does not follow the documented rule",
                                    format!(
                                        "{t}: server counts {}, expected {} after loss of w{w} ({reason:?})",
                                        ts.crash_counter, tm.crash_count
                                    ),
                                );
                            }
                        }
                    }
                }
            }
        }
        // tasks that were not reported running must not be failed by the loss
        if !delta.lost.is_empty() {
            for (t, err) in &delta.failed {
                let l = err.to_lowercase();
                let by_loss = l.contains("lost worker") || l.contains("worker that was lost");
                if by_loss && !expected_failed.contains(t) {
                    let lenient = self.tasks.get(t).is_some_and(|m| m.cc_lenient);
                    let was_running = delta.lost_running.iter().any(|(x, _, _)| x == t);
                    if !lenient && !was_running {
                        obs.alarm(
                            "C07",
                            step,
                            "task that was only queued on the lost worker was failed",
                            format!("{t}: {err}"),
                        );
                    }
                }
            }
            // crash counters of all other tasks are unchanged
            for ts in &snap.tasks {
                if let Some(tm) = self.tasks.get(&ts.id) {
                    if !tm.cc_lenient && ts.crash_counter != tm.crash_count {
                        obs.alarm(
                            "C07",
                            step,
                            "crash count changed for a task that was not running on a lost worker",
                            format!(
                                "{}: server counts {}, expected {}",
                                ts.id, ts.crash_counter, tm.crash_count
                            ),
                        );
                    }
                }
            }
        }
    }

    fn check_c08(
        &mut self,
        step: u32,
        views: &BTreeMap<JobId, JobView>,
        before: &BTreeMap<JobId, JobView>,
        snap: &CoreSnapshot,
        delta: &MicroDelta,
        obs: &mut Obs,
    ) {
        if delta.canceled.is_empty() {
            return;
        }
        let jobs: BTreeSet<JobId> = delta.canceled.iter().map(|t| t.job_id()).collect();
        if let Some((sel, _)) = &self.current_sel {
            let existing: Vec<u32> = before.keys().map(|j| j.as_num()).collect();
            let selected = sel.resolve(&existing);
            for j in &jobs {
                if !selected.contains(&j.as_num()) {
                    obs.alarm(
                        "C08",
                        step,
                        "cancel affected a job that the request did not select",
                        format!("job {j}, selector {sel:?}"),
                    );
                }
            }
        }
        for j in &jobs {
            let got: BTreeSet<u32> = delta
                .canceled
                .iter()
                .filter(|t| t.job_id() == *j)
                .map(|t| t.job_task_id().as_num())
                .collect();
            let n_got = delta.canceled.iter().filter(|t| t.job_id() == *j).count();
            if n_got != got.len() {
                obs.alarm("C08", step, "task reported canceled twice", format!("job {j}"));
            }
            if let Some(b) = before.get(j) {
                // tasks submitted in the same micro step are not expected here (one request per micro step)
                let expect: BTreeSet<u32> = b
                    .tasks
                    .iter()
                    .filter(|(_, k)| !k.terminal())
                    .map(|(id, _)| *id)
                    .collect();
                let only_cancel = delta.submitted.is_empty()
                    && delta.failed.is_empty()
                    && delta.aborted.is_empty()
                    && delta.started.is_empty()
                    && delta.lost.is_empty();
                if only_cancel && got != expect {
                    obs.alarm(
                        "C08",
                        step,
                        "cancel did not report exactly the unfinished tasks as canceled",
                        format!("job {j}: unfinished before {expect:?}, canceled {got:?}"),
                    );
                }
                if only_cancel {
                    if let Some(a) = views.get(j) {
                        for (id, k) in &b.tasks {
                            if k.terminal() && a.tasks.get(id) != Some(k) {
                                obs.alarm(
                                    "C08",
                                    step,
                                    "cancel changed the outcome of an already terminal task",
                                    format!("job {j} task {id}: {k:?} -> {:?}", a.tasks.get(id)),
                                );
                            }
                        }
                    }
                    for (oj, ov) in before {
                        if !jobs.contains(oj) {
                            if let Some(nv) = views.get(oj) {
                                if nv.tasks != ov.tasks || nv.open != ov.open {
                                    obs.alarm(
                                        "C08",
                                        step,
                                        "cancel of one job changed another job",
                                        format!("canceled {jobs:?}, job {oj} changed"),
                                    );
                                }
                            }
                        }
                    }
                }
            }
        }
        // nothing of the canceled tasks is left in the scheduler
        for t in &delta.canceled {
            if snap.tasks.iter().any(|x| x.id == *t) {
                obs.alarm(
                    "C08",
                    step,
                    "canceled task is still known to the scheduler",
                    format!("{t}"),
                );
            }
            let in_worker = snap
                .workers
                .iter()
                .any(|w| w.assigned.contains(t) || w.prefilled.contains(t) || w.mn_task.map(|m| m.0) == Some(*t));
            let in_queue = snap.queues.iter().any(|q| {
                q.ready.iter().any(|(_, ids)| ids.contains(t))
                    || q.prefill.as_ref().is_some_and(|(_, ids)| ids.contains(t))
            });
            let in_redirect = snap.redirects.iter().any(|(x, _, _)| x == t);
            if in_worker || in_queue || in_redirect {
                obs.alarm(
                    "C08",
                    step,
                    "canceled task is still referenced by a queue, a worker or a redirect",
                    format!("{t}: worker={in_worker} queue={in_queue} redirect={in_redirect}"),
                );
            }
        }
        // states at the moment of the cancel (for non-triviality)
        if let Some(p) = &self.prev_snap {
            for t in &delta.canceled {
                if let Some(ts) = p.tasks.iter().find(|x| x.id == *t) {
                    match &ts.state {
                        TaskStateSnap::Assigned { .. } => obs.class("cancel-assigned"),
                        TaskStateSnap::Prefilled { .. } => obs.class("cancel-prefilled"),
                        TaskStateSnap::Retracting { .. } => obs.class("cancel-retracting"),
                        TaskStateSnap::Running { .. } => obs.class("cancel-running"),
                        TaskStateSnap::RunningMultiNode(_) => obs.class("cancel-mn"),
                        TaskStateSnap::Waiting { unfinished_deps } => {
                            if *unfinished_deps > 0 {
                                obs.class("cancel-waiting-deps")
                            } else {
                                obs.class("cancel-ready")
                            }
                        }
                        TaskStateSnap::Finished => {}
                    }
                }
            }
        }
    }

    fn transitive_bad_ancestor(&self, t: &TaskId, upto_step: u32) -> bool {
        // does t transitively depend on a task that failed / was canceled / aborted?
        let mut stack = vec![*t];
        let mut seen = BTreeSet::new();
        while let Some(x) = stack.pop() {
            if !seen.insert(x) {
                continue;
            }
            if let Some(m) = self.tasks.get(&x) {
                for d in &m.deps {
                    if let Some(dm) = self.tasks.get(d) {
                        if let Some((k, s)) = dm.terminal {
                            if k != Kind::Finished && s <= upto_step {
                                return true;
                            }
                        }
                    }
                    stack.push(*d);
                }
            }
        }
        false
    }

    fn check_c14_c03(
        &mut self,
        world: &World,
        step: u32,
        before: &BTreeMap<JobId, JobView>,
        views: &BTreeMap<JobId, JobView>,
        delta: &MicroDelta,
        obs: &mut Obs,
    ) {
        // max-fails exceeded in this micro step
        for j in &delta.maxfail_exceeded {
            if let Some(b) = before.get(j) {
                let failed_now: BTreeSet<TaskId> = delta.failed.iter().map(|(t, _)| *t).collect();
                let aborted: BTreeSet<TaskId> = delta.aborted.iter().copied().collect();
                let mut sibling_running = false;
                let mut sibling_inflight = false;
                for (id, k) in &b.tasks {
                    let t = TaskId::new(*j, (*id).into());
                    if k.terminal() || failed_now.contains(&t) {
                        continue;
                    }
                    if *k == Kind::Running {
                        sibling_running = true;
                    }
                    if let Some(p) = &self.prev_snap {
                        if p.tasks.iter().any(|x| {
                            x.id == t
                                && matches!(
                                    x.state,
                                    TaskStateSnap::Assigned { .. }
                                        | TaskStateSnap::Prefilled { .. }
                                        | TaskStateSnap::Retracting { .. }
                                )
                        }) {
                            sibling_inflight = true;
                        }
                    }
                    let now_kind = views.get(j).and_then(|v| v.tasks.get(id)).copied();
                    if !aborted.contains(&t) || now_kind != Some(Kind::Aborted) {
                        // canceled in the very same micro step is also final; so is a task that
                        // finished / failed in the same worker message before the limit was exceeded
                        let ended_otherwise = delta.ended.contains(&t)
                            && matches!(now_kind, Some(Kind::Finished) | Some(Kind::Failed));
                        if now_kind != Some(Kind::Canceled) && !ended_otherwise {
                            obs.alarm(
                                "C14",
                                step,
                                "failure limit exceeded but an unfinished task of the job was not aborted",
                                format!("job {j} task {id} is {now_kind:?}"),
                            );
                        }
                    } else {
                        self.maxfail_aborted.insert(t);
                    }
                    // a live execution must be told to stop: CancelTasks queued to its worker
                    let l = world.launch.borrow();
                    for e in l.live.values() {
                        if e.task == t && !l.dead_workers.contains(&e.worker) && !e.stopping {
                            let told = obs.to_worker_sent.iter().any(|m| {
                                m.worker == e.worker
                                    && m.step == step
                                    && matches!(&m.body, ToW::Cancel(ids) if ids.contains(&t))
                            });
                            let alive = world.workers.get(&e.worker).is_some_and(|w| w.alive);
                            if !told && alive {
                                obs.alarm(
                                    "C14",
                                    step,
                                    "running sibling was not told to stop when the failure limit was exceeded",
                                    format!("{t} on w{}", e.worker),
                                );
                            }
                        }
                    }
                }
                if sibling_running {
                    obs.class("maxfails-with-running-sibling");
                }
                if sibling_inflight {
                    obs.class("maxfails-with-inflight-sibling");
                }
            }
        }
        // every abort must be justified
        for t in &delta.aborted {
            let jm = self.jobs.get(&t.job_id()).cloned().unwrap_or_default();
            let over = jm.exceeded_step.is_some_and(|s| s <= step);
            let dep = self.transitive_bad_ancestor(t, step);
            if !over && !dep {
                obs.alarm(
                    "C14",
                    step,
                    "task aborted although the failure limit was not exceeded and no dependency failed",
                    format!("{t}"),
                );
                obs.alarm(
                    "C03",
                    step,
                    "task aborted although it does not depend on a failed or canceled task",
                    format!("{t}"),
                );
            }
            if dep {
                obs.class("dependency-abort");
            }
        }
        // C03 (b): when a task fails or is canceled, all its unfinished transitive dependents end in this step
        let bad_now: Vec<TaskId> = delta
            .failed
            .iter()
            .map(|(t, _)| *t)
            .chain(delta.canceled.iter().copied())
            .chain(delta.aborted.iter().copied())
            .collect();
        if !bad_now.is_empty() {
            for (t, m) in &self.tasks {
                if m.terminal.is_some() {
                    continue;
                }
                if m.deps.is_empty() {
                    continue;
                }
                if self.transitive_bad_ancestor(t, step) {
                    // only tasks known before this micro step
                    let known_before = before
                        .get(&t.job_id())
                        .is_some_and(|b| b.tasks.contains_key(&t.job_task_id().as_num()));
                    if known_before {
                        obs.alarm(
                            "C03",
                            step,
                            "dependent of a failed/canceled task was not aborted",
                            format!("{t} is still unfinished"),
                        );
                    }
                }
            }
        }
    }

    fn check_time_limits(&mut self, world: &World, step: u32, obs: &mut Obs) {
        let now = world.now_ms();
        if now == self.last_time_check_ms {
            return;
        }
        self.last_time_check_ms = now;
        let l = world.launch.borrow();
        for e in l.live.values() {
            let alive = world.workers.get(&e.worker).is_some_and(|w| w.alive);
            if !alive || e.stopping {
                continue;
            }
            if let Some(tm) = self.tasks.get(&e.task) {
                if let Some(limit) = tm.time_limit_ms {
                    if now >= e.start_ms + limit + 1 {
                        obs.alarm(
                            "C01",
                            step,
                            "task runs past its time limit without being stopped",
                            format!(
                                "{} on w{} started at {} ms, limit {} ms, now {} ms",
                                e.task, e.worker, e.start_ms, limit, now
                            ),
                        );
                    }
                }
            }
        }
        // executions stopped by the time limit must be reported failed with the documented text
        for (_s, _ms, ev) in l.log.iter() {
            if let LEvent::Stop { cancel: false, .. } = ev {
                obs.class("time-limit-expired");
            }
        }
    }

    /// C04 on the real worker: the allocations of the executions that are live at the same time
    /// on one worker are pairwise compatible, each is exactly what was requested, and the
    /// environment variables describe it.
    fn check_c04(&mut self, world: &World, step: u32, snap: &CoreSnapshot, obs: &mut Obs) {
        let l = world.launch.borrow();
        while self.env_idx < l.env_problems.len() {
            let (t, w, p) = &l.env_problems[self.env_idx];
            self.env_idx += 1;
            obs.alarm(
                "C04",
                step,
                "resource values told to the task are not the ones it holds",
                format!("{t} on w{w}: {p}"),
            );
        }
        // conservation on every live worker: what is free in the pools plus what the running tasks
        // hold is exactly the worker's resources, index by index ("when it ends everything it held
        // becomes available again")
        for (w, ws) in &world.workers {
            if !ws.alive || l.dead_workers.contains(w) {
                continue;
            }
            let wsnap = ws.sim.snapshot();
            for (rid, pool) in wsnap.pools.iter().enumerate() {
                let rid = rid as u32;
                let mut held_amount = 0u64;
                let mut held_idx: BTreeMap<u32, u64> = BTreeMap::new();
                for r in &wsnap.running {
                    for a in r.allocation.iter().filter(|a| a.resource_id == rid) {
                        held_amount += a.amount;
                        for (i, _g, f) in &a.indices {
                            *held_idx.entry(*i).or_default() += if *f == 0 { 10_000 } else { *f as u64 };
                        }
                    }
                }
                match pool {
                    tako::verif::VerifPoolState::Empty => {}
                    tako::verif::VerifPoolState::Sum { full_size, free } => {
                        if free + held_amount != *full_size {
                            obs.alarm(
                                "C04",
                                step,
                                "worker resources are not conserved: free plus held differs from the size of the resource",
                                format!("w{w} sum resource {rid}: free {free} + held {held_amount} != size {full_size}; running {:?}", wsnap.running.iter().map(|r| r.task_id).collect::<Vec<_>>()),
                            );
                        }
                    }
                    tako::verif::VerifPoolState::Indexed { full_size, groups, .. } => {
                        let mut free_idx: BTreeMap<u32, u64> = BTreeMap::new();
                        let mut dup = false;
                        for (whole, partial) in groups {
                            for i in whole {
                                dup |= free_idx.insert(*i, 10_000).is_some();
                            }
                            for (i, f) in partial {
                                dup |= free_idx.insert(*i, *f as u64).is_some();
                            }
                        }
                        let free_total: u64 = free_idx.values().sum();
                        let mut bad: Vec<String> = Vec::new();
                        if dup {
                            bad.push("an index is listed twice in the free state".into());
                        }
                        if free_total + held_amount != *full_size {
                            bad.push(format!("free {free_total} + held {held_amount} != size {full_size}"));
                        }
                        let all: BTreeSet<u32> = free_idx.keys().chain(held_idx.keys()).copied().collect();
                        for i in all {
                            let f = free_idx.get(&i).copied().unwrap_or(0);
                            let h = held_idx.get(&i).copied().unwrap_or(0);
                            if f + h != 10_000 {
                                bad.push(format!("index {i}: free {f} + held {h} != 10000"));
                            }
                        }
                        if !bad.is_empty() {
                            obs.alarm(
                                "C04",
                                step,
                                "worker resources are not conserved: free plus held differs from the size of the resource",
                                format!("w{w} resource {rid}: {}; running {:?}", bad.join("; "), wsnap.running.iter().map(|r| r.task_id).collect::<Vec<_>>()),
                            );
                            // "the resources reserved for it are released" (C08): the worker was
                            // told about a cancel and now misses resources that nobody holds
                            if self.cancel_delivered.iter().any(|(cw, _)| cw == w) {
                                obs.alarm(
                                    "C08",
                                    step,
                                    "a worker that processed a cancel misses resources that no running task holds",
                                    format!("w{w} resource {rid}: {}", bad.join("; ")),
                                );
                            }
                        }
                    }
                }
            }
        }
        let mut per_worker: BTreeMap<WorkerId, Vec<&super::launcher::LiveExec>> = BTreeMap::new();
        for e in l.live.values() {
            if l.dead_workers.contains(&e.worker) {
                continue;
            }
            per_worker.entry(e.worker).or_default().push(e);
        }
        for (w, execs) in per_worker {
            let Some(ws) = world.workers.get(&w) else { continue };
            if execs.len() >= 2 {
                obs.class("concurrent-executions-on-a-worker");
            }
            // sizes of the worker's resources by resource id
            let mut sizes: BTreeMap<u32, u64> = BTreeMap::new();
            for item in &ws.cfg.resources.resources {
                if let Some(i) = snap.resource_names.iter().position(|n| *n == item.name) {
                    sizes.insert(i as u32, item.kind.size().total_fractions());
                }
            }
            let mut held: BTreeMap<(u32, u32), u64> = BTreeMap::new();
            let mut sums: BTreeMap<u32, u64> = BTreeMap::new();
            for e in &execs {
                // exactness of the grant
                if let Some(rq) = Self::rq_of(snap, e.rq_id, e.rv) {
                    if !rq.is_multi_node() {
                        for entry in rq.entries() {
                            let rid = entry.resource_id.as_num();
                            let full = sizes.get(&rid).copied().unwrap_or(0);
                            let want = entry
                                .request
                                .amount_or_none_if_all()
                                .map(|a| a.total_fractions())
                                .unwrap_or(full);
                            let got = e
                                .alloc
                                .iter()
                                .find(|a| a.resource_id == rid)
                                .map(|a| a.amount);
                            if got != Some(want) {
                                obs.alarm(
                                    "C04",
                                    step,
                                    "running task does not hold exactly the amount it requested",
                                    format!("{} on w{w}: resource {rid} requested {want} holds {got:?}", e.task),
                                );
                            }
                        }
                    }
                }
                for a in &e.alloc {
                    *sums.entry(a.resource_id).or_default() += a.amount;
                    for (i, _g, f) in &a.indices {
                        *held.entry((a.resource_id, *i)).or_default() +=
                            if *f == 0 { 10_000 } else { *f as u64 };
                        if *f != 0 {
                            obs.class("fractional-allocation-on-a-worker");
                        }
                    }
                }
            }
            for ((rid, idx), h) in &held {
                if *h > 10_000 {
                    obs.alarm(
                        "C04",
                        step,
                        "tasks running at the same time hold the same resource index beyond 100%",
                        format!("w{w} resource {rid} index {idx}: {h}/10000 held by {:?}", execs.iter().map(|e| e.task).collect::<Vec<_>>()),
                    );
                }
            }
            for (rid, s) in &sums {
                if let Some(size) = sizes.get(rid) {
                    if s > size {
                        obs.alarm(
                            "C04",
                            step,
                            "amounts taken from a resource of a worker exceed its size",
                            format!("w{w} resource {rid}: {s} of {size}"),
                        );
                    }
                }
            }
        }
    }

    fn check_snapshot_consistency(&mut self, step: u32, snap: &CoreSnapshot, obs: &mut Obs) {
        let known: BTreeSet<TaskId> = snap.tasks.iter().map(|t| t.id).collect();
        let mut refs: Vec<(TaskId, String)> = Vec::new();
        for w in &snap.workers {
            for t in &w.assigned {
                refs.push((*t, format!("assigned set of w{}", w.id)));
            }
            for t in &w.prefilled {
                refs.push((*t, format!("prefilled set of w{}", w.id)));
            }
            if let Some((t, _)) = w.mn_task {
                refs.push((t, format!("multi-node slot of w{}", w.id)));
            }
        }
        for q in &snap.queues {
            for (_, ids) in &q.ready {
                for t in ids {
                    refs.push((*t, format!("ready queue {}", q.rq_id)));
                }
            }
            if let Some((_, ids)) = &q.prefill {
                for t in ids {
                    refs.push((*t, format!("prefill set of queue {}", q.rq_id)));
                }
            }
        }
        for (t, w, _) in &snap.redirects {
            refs.push((*t, format!("redirect to w{w}")));
        }
        // a task is linked as consumer only from tasks that exist and that it depends on
        // (a stale link is followed when the input ends: an unrelated task is hit, C03)
        for t in &snap.tasks {
            for c in &t.consumers {
                match snap.tasks.iter().find(|x| x.id == *c) {
                    None => obs.alarm(
                        "C03",
                        step,
                        "task is linked to a consumer that no longer exists",
                        format!("{} lists consumer {c}", t.id),
                    ),
                    Some(ct) => {
                        if !ct.deps.contains(&t.id) {
                            obs.alarm(
                                "C03",
                                step,
                                "task is linked to a consumer that does not depend on it",
                                format!("{} lists consumer {c} whose dependencies are {:?}", t.id, ct.deps),
                            );
                        }
                    }
                }
            }
        }
        // dependency bookkeeping: the scheduler's list is the submitted one, and the counter of
        // a waiting task is the number of its dependencies that are still unfinished
        for t in &snap.tasks {
            if let Some(m) = self.tasks.get(&t.id) {
                let declared: BTreeSet<TaskId> = m.deps.iter().copied().collect();
                let held: BTreeSet<TaskId> = t.deps.iter().copied().collect();
                // (dependencies on tasks that have already finished may be left out, e.g. when the
                //  task is re-created from the journal)
                let extra = held.difference(&declared).next().is_some();
                let missing_live = declared
                    .difference(&held)
                    .any(|d| known.contains(d));
                if extra || missing_live {
                    obs.alarm(
                        "C03",
                        step,
                        "scheduler's dependency list of a task differs from the submitted one",
                        format!(
                            "{} ({:?}): submitted {declared:?}, scheduler {held:?}; states of the submitted dependencies: {:?}",
                            t.id,
                            t.state,
                            declared
                                .iter()
                                .map(|d| snap.tasks.iter().find(|x| x.id == *d).map(|x| format!("{:?}", x.state)))
                                .collect::<Vec<_>>()
                        ),
                    );
                }
            }
            if let TaskStateSnap::Waiting { unfinished_deps } = &t.state {
                let held: BTreeSet<TaskId> = t.deps.iter().copied().collect();
                let actual = held.iter().filter(|d| known.contains(d)).count() as u32;
                if *unfinished_deps > actual {
                    obs.alarm(
                        "C02",
                        step,
                        "task waits for more dependencies than it has unfinished ones",
                        format!("{}: counter {unfinished_deps}, unfinished dependencies {actual} of {held:?}", t.id),
                    );
                } else if *unfinished_deps < actual {
                    obs.alarm(
                        "C03",
                        step,
                        "dependency counter of a waiting task is lower than its number of unfinished dependencies",
                        format!("{}: counter {unfinished_deps}, unfinished dependencies {actual} of {held:?}", t.id),
                    );
                }
            }
        }
        for (t, place) in refs {
            if !known.contains(&t) {
                let prop = if self.canceled_tasks.contains(&t) {
                    "C08"
                } else {
                    "C02"
                };
                obs.alarm(
                    prop,
                    step,
                    "scheduler structure references a task that no longer exists",
                    format!("{t} in {place}"),
                );
            }
        }
    }

    // --------------------------------------------------------------------------------------

    /// Final checks. `quiescent` = the drain reached a fixpoint.
    pub fn finish(&mut self, world: &World, obs: &mut Obs, quiescent: bool, capable: bool) {
        let step = world.step_no();
        let views = job_views(world);
        // final state equals the terminal event kind
        for (t, m) in &self.tasks {
            if self.forgotten.contains(&t.job_id()) {
                continue;
            }
            let k = views
                .get(&t.job_id())
                .and_then(|v| v.tasks.get(&t.job_task_id().as_num()))
                .copied();
            match (m.terminal, k) {
                (Some((ek, _)), Some(k)) if ek != k => obs.alarm(
                    "C01",
                    step,
                    "final task state differs from the announced outcome",
                    format!("{t}: announced {ek:?}, state {k:?}"),
                ),
                (None, Some(k)) if k.terminal() => obs.alarm(
                    "C01",
                    step,
                    "task is terminal but no outcome was announced",
                    format!("{t}: state {k:?}"),
                ),
                _ => {}
            }
        }
        if !quiescent {
            obs.class("not-quiescent");
            obs.alarm(
                "C02",
                step,
                "the system does not come to rest in a fault-free suffix (livelock)",
                "drain did not reach a fixpoint within 3000 rounds".to_string(),
            );
            return;
        }
        let snap = world.snapshot();
        if std::env::var("VERIF_DUMP_SNAPSHOT").is_ok() {
            eprintln!("--- snapshot at rest (capable={capable}) ---");
            for t in &snap.tasks {
                eprintln!("  task {} {:?} rq={} prio={} deps={:?}", t.id, t.state, t.rq_id, t.priority, t.deps);
            }
            for w in &snap.workers {
                eprintln!("  worker {} group={} total={:?} free={:?} assigned={:?} prefilled={:?} mn={:?} blocked={:?} remaining={:?} stopping={} reserved={}", w.id, w.group, w.total, w.free, w.assigned, w.prefilled, w.mn_task, w.blocked, w.remaining, w.stopping, w.reserved);
            }
            for q in &snap.queues {
                eprintln!("  queue {} ready={:?} prefill={:?}", q.rq_id, q.ready, q.prefill);
            }
            for (i, r) in snap.rq_map.iter().enumerate() {
                eprintln!("  rq {i}: {r:?}");
            }
        }
        // streaming clients (submit --wait): completion report must have arrived
        for (i, c) in world.clients.iter().enumerate() {
            if let Some(j) = c.streaming_job {
                obs.class("submit-with-stream");
                let completed = self.jobs.get(&j).is_some_and(|m| m.completed > 0);
                let got = c.streamed.iter().any(
                    |e| matches!(&e.payload, EventPayload::JobCompleted(x) if *x == j),
                );
                if completed && !got && world.epoch == 0 {
                    obs.alarm(
                        "C13",
                        step,
                        "client that submitted with wait never received the job's completion report",
                        format!("client {i}, job {j}, received {} events", c.streamed.len()),
                    );
                }
            }
        }
        // C02 (2)/(3)
        for ts in &snap.tasks {
            let waiting_for_dep = matches!(ts.state, TaskStateSnap::Waiting { unfinished_deps } if unfinished_deps > 0);
            if waiting_for_dep {
                // the dependency must itself be unfinished and known
                continue;
            }
            let Some(rqv) = snap.rq_map.get(ts.rq_id as usize) else {
                continue;
            };
            let gw = rqv;
            let mut runnable_somewhere = false;
            let mut why = String::new();
            for rq in gw.requests() {
                if rq.is_multi_node() {
                    for (g, ws) in &snap.groups {
                        let ok_workers = ws
                            .iter()
                            .filter_map(|w| snap.workers.iter().find(|x| x.id == *w))
                            .filter(|w| {
                                !w.stopping
                                    && w.remaining.is_none_or(|r| r > rq.min_time() + std::time::Duration::from_secs(2))
                            })
                            .count();
                        if ok_workers >= rq.n_nodes() as usize {
                            runnable_somewhere = true;
                            why = format!("group {g} has {ok_workers} workers");
                        }
                    }
                } else {
                    for w in &snap.workers {
                        if w.stopping {
                            continue;
                        }
                        let covers = rq.entries().iter().all(|e| {
                            let total = w.total.get(e.resource_id.as_num() as usize).copied().unwrap_or(0);
                            match e.request.amount_or_none_if_all() {
                                Some(a) => a.total_fractions() <= total,
                                None => total > 0,
                            }
                        });
                        let time_ok = w
                            .remaining
                            .is_none_or(|r| r > rq.min_time() + std::time::Duration::from_secs(2));
                        if covers && time_ok {
                            runnable_somewhere = true;
                            why = format!("w{} provides everything", w.id);
                        }
                    }
                }
            }
            if runnable_somewhere {
                // is it held back by a ready multi-node task of strictly higher priority?
                let behind_mn = snap.tasks.iter().any(|m| {
                    m.id != ts.id
                        && m.priority > ts.priority
                        && matches!(m.state, TaskStateSnap::Waiting { unfinished_deps: 0 })
                        && snap
                            .rq_map
                            .get(m.rq_id as usize)
                            .is_some_and(|r| r.is_multi_node())
                });
                obs.alarm(
                    "C02",
                    step,
                    if behind_mn {
                        "task held back at rest behind a higher-priority multi-node task that cannot be placed"
                    } else {
                        "task is stuck: the system is at rest, the task is unfinished and a connected worker could run it"
                    },
                    format!("{} in state {:?}; {}", ts.id, ts.state, why),
                );
            } else if capable {
                obs.alarm(
                    "C02",
                    step,
                    "harness: capable workers connected but task judged not runnable",
                    format!("{} {:?}", ts.id, ts.state),
                );
            }
        }
        if capable {
            for w in &snap.workers {
                // only shapes that the worker could otherwise run matter: a shape that the
                // worker rejected because its remaining life time is too short stays blocked
                // for good, and that changes nothing
                let relevant: Vec<&(u32, u8)> = w
                    .blocked
                    .iter()
                    .filter(|(rq_id, rv)| {
                        Self::rq_of(&snap, *rq_id, *rv).is_some_and(|rq| {
                            let covers = rq.entries().iter().all(|e| {
                                let total = w
                                    .total
                                    .get(e.resource_id.as_num() as usize)
                                    .copied()
                                    .unwrap_or(0);
                                match e.request.amount_or_none_if_all() {
                                    Some(a) => a.total_fractions() <= total,
                                    None => total > 0,
                                }
                            });
                            let time_ok = w.remaining.is_none_or(|r| {
                                r > rq.min_time() + std::time::Duration::from_secs(2)
                            });
                            covers && time_ok
                        })
                    })
                    .collect();
                if !relevant.is_empty() && w.assigned.is_empty() {
                    obs.alarm(
                        "C02",
                        step,
                        "request shape still blocked on an idle worker at rest",
                        format!("w{} blocked {:?}", w.id, relevant),
                    );
                }
            }
            for (j, v) in &views {
                if !v.open && self.jobs.get(j).is_none_or(|m| m.completed == 0) {
                    obs.alarm(
                        "C02",
                        step,
                        "closed job did not complete although capable workers stayed connected",
                        format!("job {j}: {:?}", v.counters),
                    );
                }
            }
            for (t, m) in &self.tasks {
                if m.terminal.is_none() && !self.forgotten.contains(&t.job_id()) {
                    obs.alarm(
                        "C01",
                        step,
                        "task never reached a terminal outcome although capable workers stayed connected",
                        format!("{t}"),
                    );
                }
            }
        }
        let _ = PCall::WorkerNew;
    }
}

#[derive(Default, Debug)]
pub struct MicroDelta {
    pub submitted: Vec<(JobId, Vec<u32>)>,
    pub completed: Vec<JobId>,
    pub started: Vec<TaskId>,
    pub ended: Vec<TaskId>,
    pub failed: Vec<(TaskId, String)>,
    pub canceled: Vec<TaskId>,
    pub aborted: Vec<TaskId>,
    pub lost: Vec<(WorkerId, LostWorkerReason)>,
    pub lost_running: Vec<(TaskId, WorkerId, LostWorkerReason)>,
    pub maxfail_exceeded: Vec<JobId>,
    pub maxfail_again: bool,
}
