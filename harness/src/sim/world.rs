//! The simulated cluster: real server core + scheduler + HQ state + event streamer + journal
//! process + real worker state machines, connected by queues the harness owns.

use std::cell::RefCell;
use std::collections::{BTreeMap, VecDeque};
use std::future::Future;
use std::path::PathBuf;
use std::pin::Pin;
use std::rc::Rc;
use std::sync::Arc;
use std::task::{Context, Poll};
use std::time::Duration;

use bytes::Bytes;
use futures::SinkExt;
use futures::channel::mpsc as fmpsc;
use hyperqueue::common::serverdir::ServerDir;
use hyperqueue::server::Senders;
use hyperqueue::server::autoalloc::create_autoalloc_service;
use hyperqueue::server::client::client_rpc_loop;
use hyperqueue::server::event::Event;
use hyperqueue::server::event::journal::{
    EventStreamMessage, EventStreamReceiver, EventStreamSender, JournalReader, JournalWriter,
    verif_streaming_process,
};
use hyperqueue::server::event::streamer::EventStreamer;
use hyperqueue::server::state::StateRef;
use hyperqueue::server::verif as hqv;
use hyperqueue::transfer::messages::{FromClientMessage, ServerInfo, ToClientMessage};
use tako::control::ServerRef;
use tako::events::EventProcessor;
use tako::gateway::LostWorkerReason;
use tako::internal::messages::common::TaskFailInfo;
use tako::internal::messages::worker::{FromWorkerMessage, ToWorkerMessage};
use tako::server::SchedulerConfig;
use tako::task::SerializedTaskContext;
use tako::verif::{CoreSnapshot, ManualStream, SimServer, SimWorker};
use tako::worker::{WorkerConfiguration, WorkerOverview};
use tako::{InstanceId, ResourceVariantId, TaskId, WorkerId};
use tokio::sync::Notify;
use tokio::sync::mpsc::UnboundedReceiver;

use super::launcher::{FakeLauncher, LaunchRef, LaunchShared};

/// Calls of the HQ event processor (stream P)
#[derive(Debug, Clone)]
pub enum PCall {
    Finished(TaskId),
    Started {
        task: TaskId,
        instance: InstanceId,
        workers: Vec<WorkerId>,
        rv: u8,
    },
    Error {
        task: TaskId,
        consumers: Vec<TaskId>,
        message: String,
        returned: Vec<TaskId>,
    },
    WorkerNew(WorkerId),
    WorkerLost {
        worker: WorkerId,
        running: Vec<TaskId>,
        reason: LostWorkerReason,
    },
}

pub struct Shared {
    pub step: u32,
    pub pcalls: Vec<(u32, PCall)>,
}

struct RecordingProcessor {
    inner: Box<dyn EventProcessor>,
    shared: Rc<RefCell<Shared>>,
}

impl EventProcessor for RecordingProcessor {
    fn on_task_finished(&mut self, task_id: TaskId) {
        {
            let mut s = self.shared.borrow_mut();
            let step = s.step;
            s.pcalls.push((step, PCall::Finished(task_id)));
        }
        self.inner.on_task_finished(task_id)
    }
    fn on_task_started(
        &mut self,
        task_id: TaskId,
        instance_id: InstanceId,
        worker_ids: &[WorkerId],
        rv_id: ResourceVariantId,
        context: SerializedTaskContext,
    ) {
        {
            let mut s = self.shared.borrow_mut();
            let step = s.step;
            s.pcalls.push((
                step,
                PCall::Started {
                    task: task_id,
                    instance: instance_id,
                    workers: worker_ids.to_vec(),
                    rv: rv_id.as_num(),
                },
            ));
        }
        self.inner
            .on_task_started(task_id, instance_id, worker_ids, rv_id, context)
    }
    fn on_task_error(
        &mut self,
        task_id: TaskId,
        consumers_id: Vec<TaskId>,
        error_info: TaskFailInfo,
    ) -> Vec<TaskId> {
        let message = error_info.message.clone();
        let consumers = consumers_id.clone();
        let r = self.inner.on_task_error(task_id, consumers_id, error_info);
        let mut s = self.shared.borrow_mut();
        let step = s.step;
        s.pcalls.push((
            step,
            PCall::Error {
                task: task_id,
                consumers,
                message,
                returned: r.clone(),
            },
        ));
        r
    }
    fn on_worker_new(&mut self, worker_id: WorkerId, configuration: &WorkerConfiguration) {
        {
            let mut s = self.shared.borrow_mut();
            let step = s.step;
            s.pcalls.push((step, PCall::WorkerNew(worker_id)));
        }
        self.inner.on_worker_new(worker_id, configuration)
    }
    fn on_worker_lost(
        &mut self,
        worker_id: WorkerId,
        running_tasks: &[TaskId],
        reason: LostWorkerReason,
    ) {
        {
            let mut s = self.shared.borrow_mut();
            let step = s.step;
            s.pcalls.push((
                step,
                PCall::WorkerLost {
                    worker: worker_id,
                    running: running_tasks.to_vec(),
                    reason,
                },
            ));
        }
        self.inner.on_worker_lost(worker_id, running_tasks, reason)
    }
    fn on_worker_overview(&mut self, overview: Box<WorkerOverview>) {
        self.inner.on_worker_overview(overview)
    }
    fn on_task_notify(&mut self, task_id: TaskId, worker_id: WorkerId, message: Box<[u8]>) {
        self.inner.on_task_notify(task_id, worker_id, message)
    }
}

pub fn noop_cx() -> Context<'static> {
    Context::from_waker(std::task::Waker::noop())
}

pub struct WorkerSim {
    pub id: WorkerId,
    pub cfg: WorkerConfiguration,
    pub palette: usize,
    pub sim: SimWorker,
    q_rx: UnboundedReceiver<Bytes>,
    r_rx: UnboundedReceiver<Bytes>,
    /// server -> worker, not yet delivered
    pub q: VecDeque<Bytes>,
    /// worker -> server, not yet delivered
    pub r: VecDeque<Bytes>,
    /// messages moved into q / r since the harness last looked (for the "sent" logs)
    pub new_q: Vec<Bytes>,
    pub new_r: Vec<Bytes>,
    stream: ManualStream,
    recv_fut: Pin<Box<dyn Future<Output = tako::Result<Option<tako::internal::messages::worker::WorkerStopReason>>>>>,
    /// false once the worker process has ended (it does not read messages any more)
    pub alive: bool,
    pub connect_step: u32,
    /// virtual time (ms) of connection
    pub connect_ms: u64,
}

impl WorkerSim {
    fn pump(&mut self) {
        while let Ok(m) = self.q_rx.try_recv() {
            self.new_q.push(m.clone());
            self.q.push_back(m);
        }
        while let Ok(m) = self.r_rx.try_recv() {
            self.new_r.push(m.clone());
            self.r.push_back(m);
        }
    }
}

pub struct PendingRequest {
    pub kind: String,
    pub sent_step: u32,
    /// for submit-with-stream: the client stays in streaming mode afterwards
    pub stream: bool,
    /// for cancel / close / forget: which jobs the request selects (and the status filter)
    pub sel: Option<(Sel, Vec<hyperqueue::client::status::Status>)>,
    /// for cancel: the unfinished tasks of every job at the moment the request was sent
    pub unfinished_at_send: BTreeMap<u32, Vec<u32>>,
}

/// Job selector of a request, in comparable form
#[derive(Debug, Clone, PartialEq)]
pub enum Sel {
    All,
    LastN(u32),
    Specific(Vec<u32>),
}

impl Sel {
    pub fn resolve(&self, existing: &[u32]) -> std::collections::BTreeSet<u32> {
        match self {
            Sel::All => existing.iter().copied().collect(),
            Sel::LastN(n) => {
                let mut v = existing.to_vec();
                v.sort_unstable();
                v.into_iter().rev().take(*n as usize).collect()
            }
            Sel::Specific(ids) => ids.iter().copied().collect(),
        }
    }
    pub fn to_selector(&self) -> hyperqueue::transfer::messages::IdSelector {
        use hyperqueue::transfer::messages::IdSelector;
        match self {
            Sel::All => IdSelector::All,
            Sel::LastN(n) => IdSelector::LastN(*n),
            Sel::Specific(ids) => IdSelector::Specific(super::palette::int_array(ids)),
        }
    }
}

pub struct ClientSim {
    pub to_server: fmpsc::UnboundedSender<tako::Result<FromClientMessage>>,
    pub from_server: fmpsc::UnboundedReceiver<ToClientMessage>,
    pub fut: Option<Pin<Box<dyn Future<Output = ()>>>>,
    pub pending: Option<PendingRequest>,
    pub streaming_job: Option<tako::JobId>,
    pub streamed: Vec<Event>,
    pub done: bool,
}

pub struct JournalSim {
    pub path: PathBuf,
    to_journal: EventStreamSender,
    fut: Option<Pin<Box<dyn Future<Output = anyhow::Result<()>>>>>,
    pub pending: VecDeque<EventStreamMessage>,
    /// File length at the moment the last flush/prune request was handled
    pub durable_floor: u64,
    pub error: Option<String>,
    pub prunes: u32,
    /// number of event records handed to the journal process so far
    pub events_forwarded: usize,
    pub events_at_last_prune: usize,
}

pub struct World {
    pub dir: PathBuf,
    pub server: SimServer,
    pub server_ref: ServerRef,
    pub state_ref: StateRef,
    pub senders: Senders,
    pub server_dir: ServerDir,
    rx_a: EventStreamReceiver,
    pub journal: JournalSim,
    pub workers: BTreeMap<WorkerId, WorkerSim>,
    pub clients: Vec<ClientSim>,
    pub launch: LaunchRef,
    pub shared: Rc<RefCell<Shared>>,
    /// events that left the EventStreamer in this epoch (step, event)
    pub events: Vec<(u32, Event)>,
    pub offset: Duration,
    pub base: std::time::Instant,
    pub origin: tokio::time::Instant,
    pub sched_cfg: (u32, u32),
    pub server_uid: String,
    pub epoch: u32,
    /// allocation queues whose life-cycle records the harness emits (no autoalloc process runs):
    /// next queue id, live queues with their allocation ids, allocation counter
    pub queue_counter: u32,
    pub sim_queues: BTreeMap<u32, Vec<String>>,
    pub alloc_counter: u32,
    _autoalloc_fut: Pin<Box<dyn Future<Output = ()>>>,
}

pub struct WorldParams {
    pub dir: PathBuf,
    pub prefill: Option<(u32, u32)>,
}

fn make_sched_config(prefill: Option<(u32, u32)>) -> SchedulerConfig {
    let mut c = SchedulerConfig::default();
    if let Some((reserve, max)) = prefill {
        c.proactive_filling_reserve = reserve;
        c.proactive_filling_max = max;
    }
    // Generous MILP limit so that solves complete (instances are tiny)
    c.mip_time_limit = Duration::from_secs(30);
    c
}

pub struct RestoreInfo {
    pub job_id_counter: u32,
    pub worker_id_counter: WorkerId,
    pub queue_id_counter: u32,
    pub truncate_size: Option<u64>,
    pub server_uid: String,
    pub n_task_submits: usize,
    pub queues: Vec<u32>,
    /// (queue id, parameters as JSON, worker resources as JSON)
    pub queue_details: Vec<(u32, String, Option<String>)>,
    pub submitted_tasks: Vec<(TaskId, Vec<TaskId>, u32, u32)>,
}

impl World {
    /// Fresh server without journal history.
    pub fn new(params: &WorldParams, launch: LaunchRef, shared: Rc<RefCell<Shared>>) -> World {
        let journal_path = params.dir.join("journal-0.bin");
        let _ = std::fs::remove_file(&journal_path);
        Self::boot(
            params,
            launch,
            shared,
            journal_path,
            None,
            0,
            tokio::time::Instant::now(),
            Duration::ZERO,
        )
        .expect("fresh boot cannot fail")
        .0
    }

    /// Boot a server on `journal_path`. If the file exists, the state is restored from it
    /// (mirrors `start_server`).
    #[allow(clippy::too_many_arguments)]
    pub fn boot(
        params: &WorldParams,
        launch: LaunchRef,
        shared: Rc<RefCell<Shared>>,
        journal_path: PathBuf,
        _unused: Option<()>,
        epoch: u32,
        origin: tokio::time::Instant,
        offset: Duration,
    ) -> Result<(World, Option<RestoreInfo>), String> {
        let loaded = if journal_path.exists() {
            Some(hqv::load_journal(&journal_path).map_err(|e| format!("load_journal: {e:?}"))?)
        } else {
            None
        };
        let server_uid = loaded
            .as_ref()
            .map(|l| l.server_uid.clone())
            .filter(|u| !u.is_empty())
            .unwrap_or_else(|| "simuid".to_string());
        let worker_id_init = loaded
            .as_ref()
            .map(|l| l.worker_id_counter)
            .unwrap_or(WorkerId::new(0));
        let queue_id_init = loaded.as_ref().map(|l| l.queue_id_counter).unwrap_or(1);
        let truncate = loaded.as_ref().and_then(|l| l.truncate_size);

        let state_ref = StateRef::new(ServerInfo {
            version: "verif".to_string(),
            server_uid: server_uid.clone(),
            client_host: "localhost".to_string(),
            worker_host: "localhost".to_string(),
            client_port: 0,
            worker_port: 0,
            pid: 0,
            start_date: chrono::Utc::now(),
            journal_path: Some(journal_path.clone()),
        });

        // prepare_event_management
        let writer = JournalWriter::create_or_append(&journal_path, truncate)
            .map_err(|e| format!("create_or_append: {e:?}"))?;
        let (tx_a, rx_a) = tokio::sync::mpsc::unbounded_channel::<EventStreamMessage>();
        let (tx_b, rx_b) = tokio::sync::mpsc::unbounded_channel::<EventStreamMessage>();
        let jfut = verif_streaming_process(
            writer,
            rx_b,
            journal_path.clone(),
            Duration::from_secs(3600 * 24 * 365),
        );
        let events = EventStreamer::new(Some(tx_a));
        events.on_server_start(&server_uid);

        let server = SimServer::new(
            make_sched_config(params.prefill),
            server_uid.clone(),
            worker_id_init,
            None,
        );
        let server_ref = server.server_ref();
        let (autoalloc, autoalloc_fut) =
            create_autoalloc_service(server_ref.clone(), queue_id_init, events.clone());
        let senders = Senders {
            server_control: server_ref.clone(),
            events,
            autoalloc,
        };
        let inner = hqv::make_event_processor(state_ref.clone(), senders.clone());
        server_ref.set_client_events(Box::new(RecordingProcessor {
            inner,
            shared: shared.clone(),
        }));
        let server_dir = ServerDir::open(&params.dir).map_err(|e| format!("{e:?}"))?;

        let mut restore_info = None;
        if let Some(loaded) = loaded {
            let mut info = RestoreInfo {
                job_id_counter: loaded.job_id_counter,
                worker_id_counter: loaded.worker_id_counter,
                queue_id_counter: loaded.queue_id_counter,
                truncate_size: loaded.truncate_size,
                server_uid: loaded.server_uid.clone(),
                n_task_submits: 0,
                queues: Vec::new(),
                queue_details: Vec::new(),
                submitted_tasks: Vec::new(),
            };
            let (submits, queues) = hqv::restore_state(loaded, &state_ref, &server_ref)
                .map_err(|e| format!("restore_state: {e:?}"))?;
            info.n_task_submits = submits.len();
            info.queues = queues.iter().map(|q| q.queue_id).collect();
            info.queue_details = queues
                .iter()
                .map(|q| {
                    (
                        q.queue_id,
                        serde_json::to_string(&q.params).unwrap_or_default(),
                        q.worker_resources
                            .as_ref()
                            .map(|r| serde_json::to_string(r).unwrap_or_default()),
                    )
                })
                .collect();
            for s in submits {
                for t in &s.tasks {
                    let (inst, cc) = s
                        .adjust_instance_id_and_crash_counters
                        .get(&t.id)
                        .map(|(i, c)| (i.as_num(), *c))
                        .unwrap_or((0, 0));
                    info.submitted_tasks
                        .push((t.id, t.task_deps.iter().copied().collect(), inst, cc));
                }
                server_ref
                    .add_new_tasks(s)
                    .map_err(|e| format!("add_new_tasks: {e:?}"))?;
            }
            restore_info = Some(info);
        }

        let world = World {
            dir: params.dir.clone(),
            server,
            server_ref,
            state_ref,
            senders,
            server_dir,
            rx_a,
            journal: JournalSim {
                path: journal_path,
                to_journal: tx_b,
                // opt out of tokio's cooperative budget: the harness polls this future by hand
                fut: Some(Box::pin(tokio::task::unconstrained(jfut))),
                pending: VecDeque::new(),
                durable_floor: 0,
                error: None,
                prunes: 0,
                events_forwarded: 0,
                events_at_last_prune: 0,
            },
            workers: BTreeMap::new(),
            clients: Vec::new(),
            launch,
            shared,
            events: Vec::new(),
            offset,
            base: std::time::Instant::now(),
            origin,
            sched_cfg: params.prefill.unwrap_or((16, 40)),
            server_uid,
            epoch,
            queue_counter: queue_id_init,
            sim_queues: restore_info
                .as_ref()
                .map(|i: &RestoreInfo| i.queues.iter().map(|q| (*q, Vec::new())).collect())
                .unwrap_or_default(),
            alloc_counter: epoch * 1000,
            _autoalloc_fut: Box::pin(autoalloc_fut),
        };
        Ok((world, restore_info))
    }

    pub fn now(&self) -> std::time::Instant {
        std::time::Instant::now() + self.offset
    }

    pub fn now_ms(&self) -> u64 {
        (tokio::time::Instant::now() - self.origin).as_millis() as u64
    }

    pub fn step_no(&self) -> u32 {
        self.shared.borrow().step
    }

    pub fn set_step(&self, step: u32) {
        self.shared.borrow_mut().step = step;
        self.launch.borrow_mut().step = step;
    }

    /// Let spawned local tasks run and move all produced messages into the harness queues.
    pub async fn settle(&mut self) {
        for _ in 0..4 {
            tokio::task::yield_now().await;
        }
        self.pump();
    }

    pub fn pump(&mut self) {
        for w in self.workers.values_mut() {
            w.pump();
        }
        let step = self.step_no();
        while let Ok(msg) = self.rx_a.try_recv() {
            if let EventStreamMessage::Event(e) = &msg {
                self.events.push((step, e.clone()));
            }
            self.journal.pending.push_back(msg);
        }
    }

    pub fn snapshot(&self) -> CoreSnapshot {
        self.server.snapshot(self.now())
    }

    // ---------------------------------------------------------------- workers

    pub fn connect_worker(&mut self, cfg: WorkerConfiguration, palette: usize) -> WorkerId {
        let now = self.now();
        let (id, response, q_rx) = self.server.register_worker(cfg.clone(), now);
        let launcher = FakeLauncher {
            worker: id,
            shared: self.launch.clone(),
            origin: self.origin,
            desc: cfg.resources.clone(),
        };
        let (sim, r_rx) = SimWorker::new(response, cfg.clone(), Box::new(launcher));
        let stream = ManualStream::default();
        let recv_fut: Pin<Box<dyn Future<Output = _>>> =
            Box::pin(tokio::task::unconstrained(self.server.receive_loop(id, stream.clone())));
        let connect_ms = self.now_ms();
        self.workers.insert(
            id,
            WorkerSim {
                id,
                cfg,
                palette,
                sim,
                q_rx,
                r_rx,
                q: VecDeque::new(),
                r: VecDeque::new(),
                new_q: Vec::new(),
                new_r: Vec::new(),
                stream,
                recv_fut,
                alive: true,
                connect_step: self.step_no(),
                connect_ms,
            },
        );
        id
    }

    /// Deliver the oldest server->worker message. Returns the decoded message.
    pub fn deliver_to_worker(&mut self, id: WorkerId) -> Option<ToWorkerMessage> {
        let w = self.workers.get_mut(&id)?;
        let data = w.q.pop_front()?;
        let decoded: ToWorkerMessage = tako::comm::deserialize(&data).ok()?;
        if w.alive {
            match w.sim.deliver(&data) {
                Ok(true) => {
                    // Stop command: graceful shutdown, the worker closes the connection
                    w.sim.shutdown();
                    w.alive = false;
                    self.launch.borrow_mut().dead_workers.insert(id);
                    w.stream.close();
                }
                Ok(false) => {}
                Err(e) => panic!("worker could not decode a server message: {e:?}"),
            }
        }
        Some(decoded)
    }

    /// Deliver the oldest worker->server message through the real receive loop.
    /// Returns the decoded message and, if the connection ended, the loss reason used.
    pub fn deliver_to_server(
        &mut self,
        id: WorkerId,
    ) -> Option<(FromWorkerMessage, Option<LostWorkerReason>)> {
        let w = self.workers.get_mut(&id)?;
        let data = w.r.pop_front()?;
        let decoded: FromWorkerMessage = tako::comm::deserialize(&data).ok()?;
        w.stream.push(&data);
        let mut cx = noop_cx();
        let res = w.recv_fut.as_mut().poll(&mut cx);
        let mut lost = None;
        if let Poll::Ready(r) = res {
            let reason = match r {
                Ok(x) => SimServer::stop_reason_to_lost_reason(x),
                Err(_) => LostWorkerReason::ConnectionLost,
            };
            lost = Some(self.finish_worker(id, reason));
        }
        Some((decoded, lost))
    }

    /// Poll the receive loop of a worker whose stream was closed (graceful stop).
    pub fn poll_closed(&mut self, id: WorkerId) -> Option<LostWorkerReason> {
        let w = self.workers.get_mut(&id)?;
        let mut cx = noop_cx();
        if let Poll::Ready(r) = w.recv_fut.as_mut().poll(&mut cx) {
            let reason = match r {
                Ok(x) => SimServer::stop_reason_to_lost_reason(x),
                Err(_) => LostWorkerReason::ConnectionLost,
            };
            return Some(self.finish_worker(id, reason));
        }
        None
    }

    /// Tail of `worker_rpc_loop`: the connection is gone.
    pub fn finish_worker(&mut self, id: WorkerId, reason: LostWorkerReason) -> LostWorkerReason {
        if let Some(w) = self.workers.get_mut(&id) {
            if w.alive {
                w.sim.shutdown();
                w.alive = false;
            }
        }
        self.launch.borrow_mut().dead_workers.insert(id);
        let used = self.server.remove_worker(id, reason);
        self.workers.remove(&id);
        used
    }

    /// The worker process ends by itself (time limit reached): it announces the stop and
    /// winds down; the server learns about it when the message is delivered.
    pub fn worker_self_stop(&mut self, id: WorkerId) {
        if let Some(w) = self.workers.get_mut(&id) {
            if w.alive {
                w.sim
                    .send_stop(tako::internal::messages::worker::WorkerStopReason::TimeLimitReached);
                w.sim.shutdown();
                w.alive = false;
                self.launch.borrow_mut().dead_workers.insert(id);
            }
        }
    }

    /// The connection of a worker that already ended is closed (no message left in flight).
    pub fn close_connection(&mut self, id: WorkerId) -> Option<LostWorkerReason> {
        let w = self.workers.get_mut(&id)?;
        w.stream.close();
        self.poll_closed(id)
    }

    // ---------------------------------------------------------------- time

    pub async fn advance_time(&mut self, d: Duration) {
        self.offset += d;
        tako::verif::clock::set_offset(self.offset);
        tokio::time::advance(d).await;
        // workers whose time limit passed stop by themselves
        let now_ms = self.now_ms();
        let expired: Vec<WorkerId> = self
            .workers
            .values()
            .filter(|w| {
                w.alive
                    && w.cfg
                        .time_limit
                        .is_some_and(|l| now_ms >= w.connect_ms + l.as_millis() as u64)
            })
            .map(|w| w.id)
            .collect();
        for id in expired {
            self.worker_self_stop(id);
        }
    }

    // ---------------------------------------------------------------- clients

    pub fn new_client(&mut self) -> usize {
        let (to_server, server_rx) = fmpsc::unbounded::<tako::Result<FromClientMessage>>();
        let (server_tx, from_server) = fmpsc::unbounded::<ToClientMessage>();
        let tx = server_tx.sink_map_err(|e| tako::Error::GenericError(e.to_string()));
        let state_ref = self.state_ref.clone();
        let senders = self.senders.clone();
        let server_dir = self.server_dir.clone();
        let fut = async move {
            let end_flag = Arc::new(Notify::new());
            client_rpc_loop(tx, server_rx, server_dir, state_ref, &senders, end_flag).await;
        };
        self.clients.push(ClientSim {
            to_server,
            from_server,
            fut: Some(Box::pin(tokio::task::unconstrained(fut))),
            pending: None,
            streaming_job: None,
            streamed: Vec::new(),
            done: false,
        });
        self.clients.len() - 1
    }

    /// An idle (non-streaming, no pending request) client connection, or a new one
    pub fn idle_client(&mut self) -> usize {
        if let Some(i) = self
            .clients
            .iter()
            .position(|c| c.pending.is_none() && c.streaming_job.is_none() && !c.done)
        {
            i
        } else {
            self.new_client()
        }
    }

    pub fn send_request(&mut self, c: usize, msg: FromClientMessage, kind: &str, stream: bool) {
        let step = self.step_no();
        let client = &mut self.clients[c];
        assert!(client.pending.is_none());
        client.to_server.unbounded_send(Ok(msg)).unwrap();
        client.pending = Some(PendingRequest {
            kind: kind.to_string(),
            sent_step: step,
            stream,
            sel: None,
            unfinished_at_send: BTreeMap::new(),
        });
    }

    pub fn send_request_sel(
        &mut self,
        c: usize,
        msg: FromClientMessage,
        kind: &str,
        sel: Sel,
        filter: Vec<hyperqueue::client::status::Status>,
    ) {
        self.send_request(c, msg, kind, false);
        if let Some(p) = self.clients[c].pending.as_mut() {
            p.sel = Some((sel, filter));
        }
    }

    /// Poll the server side of the connection once and collect what the client received.
    pub fn poll_client(&mut self, c: usize) -> Vec<ToClientMessage> {
        let client = &mut self.clients[c];
        if let Some(fut) = client.fut.as_mut() {
            let mut cx = noop_cx();
            if let Poll::Ready(()) = fut.as_mut().poll(&mut cx) {
                client.fut = None;
                client.done = true;
            }
        }
        let mut out = Vec::new();
        while let Ok(Some(m)) = client.from_server.try_next() {
            out.push(m);
        }
        out
    }

    // ---------------------------------------------------------------- journal

    pub fn journal_file_len(&self) -> u64 {
        std::fs::metadata(&self.journal.path)
            .map(|m| m.len())
            .unwrap_or(0)
    }

    /// Forward the oldest pending message to the journal process and let it run.
    pub fn journal_step(&mut self) -> bool {
        let Some(msg) = self.journal.pending.pop_front() else {
            return false;
        };
        let sync = !matches!(msg, EventStreamMessage::Event(_));
        if !sync {
            self.journal.events_forwarded += 1;
        }
        let is_prune = matches!(msg, EventStreamMessage::PruneJournal { .. });
        if self.journal.to_journal.send(msg).is_err() {
            self.journal.error = Some("journal channel closed".to_string());
            return false;
        }
        self.poll_journal();
        if sync && self.journal.error.is_none() {
            self.journal.durable_floor = self.journal_file_len();
            if is_prune {
                self.journal.prunes += 1;
                self.journal.events_at_last_prune = self.journal.events_forwarded;
            }
        }
        true
    }

    pub fn poll_journal(&mut self) {
        if let Some(fut) = self.journal.fut.as_mut() {
            let mut cx = noop_cx();
            if let Poll::Ready(r) = fut.as_mut().poll(&mut cx) {
                self.journal.fut = None;
                if let Err(e) = r {
                    self.journal.error = Some(format!("{e:?}"));
                } else {
                    self.journal.error = Some("journal process ended".to_string());
                }
            }
        }
    }

    pub fn journal_drain(&mut self) {
        self.pump();
        while self.journal_step() {}
    }

    /// Make the file contain everything that was handed to the journal so far.
    pub fn journal_flush_all(&mut self) {
        self.journal_drain();
        let (tx, _rx) = tokio::sync::oneshot::channel();
        let _ = self
            .journal
            .to_journal
            .send(EventStreamMessage::FlushJournal(tx));
        self.poll_journal();
    }

    /// Offsets of record boundaries of a journal file (header end first) and whether it
    /// has a torn tail.
    pub fn record_boundaries(path: &std::path::Path) -> anyhow::Result<(Vec<u64>, Vec<Event>)> {
        let mut events = Vec::new();
        // Recompute exact boundaries: re-read and note position at each next() start
        let mut reader = JournalReader::open(path)?;
        let mut exact = Vec::new();
        loop {
            let item = (&mut reader).next();
            exact.push(reader.position());
            match item {
                Some(Ok(e)) => events.push(e),
                Some(Err(e)) => return Err(e),
                None => break,
            }
        }
        Ok((exact, events))
    }
}
