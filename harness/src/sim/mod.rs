//! Engine SIM: deterministic cluster simulation with a harness-owned schedule.

pub mod launcher;
pub mod monitors;
pub mod obs;
pub mod palette;
pub mod world;

use std::cell::RefCell;
use std::collections::{BTreeMap, BTreeSet};
use std::path::PathBuf;
use std::rc::Rc;
use std::time::Duration;

use hyperqueue::server::event::journal::EventStreamMessage;
use hyperqueue::server::event::payload::EventPayload;
use hyperqueue::server::event::streamer::EventFilter;
use hyperqueue::transfer::messages::{
    CancelRequest, CloseJobRequest, ForgetJobRequest, FromClientMessage, IdSelector,
    JobDescription, JobDetailRequest, JobInfoRequest, StopWorkerMessage, StreamEvents,
    StreamEventsMode, TaskIdSelector, TaskSelector, TaskStatusSelector, ToClientMessage,
};
use proptest::prelude::*;
use serde::{Deserialize, Serialize};
use tako::gateway::LostWorkerReason;
use tako::verif::SchedOutcome;
use tako::{JobId, TaskId, WorkerId};

use crate::common::{Outcome, Violation, hash_str, pick, sub};
use launcher::{LaunchShared, Resolution};
use monitors::Monitors;
use obs::{EpochObs, FromW, LossObs, MsgObs, Obs, ToW, summarize_from_worker, summarize_to_worker};
use world::{Sel, Shared, World, WorldParams};

#[derive(Serialize, Deserialize, Debug, Clone)]
pub struct SimCase {
    pub profile: String,
    /// Some((reserve, max)) = scaled-down prefill thresholds; None = production defaults
    pub prefill: Option<(u32, u32)>,
    /// journal and client connections are serviced automatically after every step
    pub eager: bool,
    pub choices: Vec<(u16, u32)>,
    /// generator version: decides how the argument of an action is decoded. Replay files
    /// written before a generator extension keep their meaning (missing = 0).
    #[serde(default)]
    pub genv: u8,
}

#[derive(Debug, Clone, Copy, Default)]
pub struct Weights {
    pub connect: u32,
    pub submit: u32,
    pub submit_invalid: u32,
    pub open: u32,
    pub close: u32,
    pub cancel: u32,
    pub forget: u32,
    pub info: u32,
    pub stop_worker: u32,
    pub flush: u32,
    pub prune: u32,
    pub client_poll: u32,
    pub journal: u32,
    pub to_worker: u32,
    pub to_server: u32,
    pub sched: u32,
    pub end_finish: u32,
    pub end_fail: u32,
    pub advance: u32,
    pub retract_check: u32,
    pub queue_ev: u32,
    pub idle_stop: u32,
    pub lost: u32,
    pub crash: u32,
    pub launch_fail: u32,
}

pub fn profile_weights(name: &str) -> Weights {
    let base = Weights {
        connect: 6,
        submit: 10,
        submit_invalid: 1,
        open: 2,
        close: 2,
        cancel: 3,
        forget: 1,
        info: 1,
        stop_worker: 1,
        flush: 1,
        prune: 0,
        client_poll: 8,
        journal: 8,
        to_worker: 30,
        to_server: 30,
        sched: 25,
        end_finish: 20,
        end_fail: 4,
        advance: 2,
        retract_check: 1,
        idle_stop: 1,
        lost: 3,
        crash: 0,
        launch_fail: 1,
        queue_ev: 0,
    };
    match name {
        "chaos" => Weights {
            cancel: 6,
            lost: 6,
            stop_worker: 2,
            advance: 3,
            end_fail: 6,
            ..base
        },
        "lifecycle" => Weights {
            cancel: 5,
            lost: 5,
            advance: 5,
            end_fail: 6,
            launch_fail: 3,
            ..base
        },
        "progress" => Weights {
            open: 5,
            submit: 14,
            lost: 4,
            advance: 3,
            retract_check: 2,
            ..base
        },
        "dag" => Weights {
            open: 4,
            end_fail: 8,
            cancel: 4,
            lost: 2,
            launch_fail: 2,
            ..base
        },
        "placement" => Weights {
            connect: 8,
            lost: 4,
            advance: 3,
            cancel: 3,
            ..base
        },
        "resources" => Weights {
            connect: 8,
            lost: 3,
            advance: 4,
            cancel: 4,
            end_fail: 6,
            launch_fail: 5,
            ..base
        },
        "steal" => Weights {
            submit: 14,
            lost: 5,
            cancel: 4,
            to_server: 18,
            ..base
        },
        // as "steal" / "placement", with time-limited workers, time requests, time advances and
        // retract checks frequent enough to reach the hard rejects of the periodic check
        "steal2" => Weights {
            submit: 14,
            lost: 5,
            cancel: 4,
            to_server: 18,
            advance: 5,
            retract_check: 5,
            ..base
        },
        "progress2" => Weights {
            open: 5,
            submit: 14,
            lost: 4,
            advance: 4,
            retract_check: 4,
            ..base
        },
        "placement2" => Weights {
            connect: 8,
            lost: 4,
            advance: 5,
            cancel: 3,
            retract_check: 4,
            ..base
        },
        "loss" => Weights {
            lost: 12,
            stop_worker: 3,
            idle_stop: 3,
            advance: 4,
            connect: 10,
            end_finish: 10,
            ..base
        },
        "cancel" => Weights {
            cancel: 12,
            to_worker: 20,
            to_server: 20,
            ..base
        },
        "jobs" => Weights {
            open: 6,
            close: 6,
            cancel: 5,
            forget: 4,
            submit: 14,
            submit_invalid: 5,
            info: 2,
            ..base
        },
        "maxfails" => Weights {
            end_fail: 16,
            launch_fail: 4,
            lost: 4,
            ..base
        },
        "prune" => Weights {
            open: 4,
            close: 4,
            cancel: 5,
            end_fail: 6,
            lost: 6,
            prune: 8,
            flush: 2,
            connect: 8,
            queue_ev: 4,
            ..base
        },
        "journal" => Weights {
            open: 4,
            close: 4,
            cancel: 5,
            end_fail: 8,
            launch_fail: 3,
            lost: 5,
            prune: 2,
            flush: 3,
            queue_ev: 4,
            ..base
        },
        _ => base,
    }
}

#[derive(Debug, Clone)]
pub enum Action {
    Connect { palette: usize },
    /// worker started inside an allocation of an allocation queue (carries manager info)
    ConnectAlloc { palette: usize, pick: u32 },
    QueueEvent { arg: u32 },
    Submit { arg: u32, invalid: bool },
    OpenJob { max_fails: Option<u32> },
    CloseJob { job: JobId, sel: u32 },
    Cancel { job: JobId, sel: u32 },
    ForgetJob { job: JobId, sel: u32 },
    JobInfo,
    Query { arg: u32 },
    /// the query the autoalloc process sends to the scheduler at its tick (generator version >= 2)
    WorkerQuery { arg: u32 },
    StopWorker { worker: WorkerId },
    FlushJournal,
    PruneJournal,
    ClientPoll { client: usize },
    JournalStep,
    ToWorker { worker: WorkerId },
    /// several queued messages are handed to the worker back to back (one read of the socket),
    /// without letting the worker's spawned futures run in between
    ToWorkerBurst { worker: WorkerId },
    ToServer { worker: WorkerId },
    CloseConn { worker: WorkerId },
    Sched,
    EndTask { exec: u32, finish: bool },
    Advance { secs: u64 },
    /// time passes until a time-limited worker has only 150 s left (the window in which the
    /// worker gives back tasks whose time request it cannot serve any more)
    AdvanceNearLimit { worker: WorkerId },
    RetractCheck { worker: WorkerId },
    IdleStop { worker: WorkerId },
    Lost { worker: WorkerId, heartbeat: bool },
    MarkLaunchFail { task: TaskId },
    Crash { arg: u32 },
}

pub struct Limits {
    pub max_workers: usize,
    pub max_tasks: usize,
    pub max_jobs: usize,
}

pub const GEN_CURRENT: u8 = 2;

pub struct Sim {
    pub profile: String,
    /// the choice sequence of the case (a restored server continues with a part of it)
    pub case_choices: Vec<(u16, u32)>,
    pub genv: u8,
    pub last_alloc: Option<(u32, String)>,
    pub world: World,
    pub obs: Rc<RefCell<Obs>>,
    pub mon: Monitors,
    pub weights: Weights,
    pub limits: Limits,
    pub eager: bool,
    pub worker_counter: usize,
    pub params: WorldParams,
    pub total_tasks_submitted: usize,
}

thread_local! {
    static CASE_DIR: RefCell<Option<PathBuf>> = const { RefCell::new(None) };
}

pub fn thread_dir() -> PathBuf {
    CASE_DIR.with(|d| {
        let mut d = d.borrow_mut();
        if d.is_none() {
            let base = if std::path::Path::new("/dev/shm").is_dir() {
                PathBuf::from("/dev/shm")
            } else {
                std::env::temp_dir()
            };
            let p = base.join(format!(
                "hqverif-{}-{:?}",
                std::process::id(),
                std::thread::current().id()
            ));
            let _ = std::fs::remove_dir_all(&p);
            std::fs::create_dir_all(&p).unwrap();
            *d = Some(p);
        }
        d.clone().unwrap()
    })
}

pub fn cleanup_thread_dir() {
    CASE_DIR.with(|d| {
        if let Some(p) = d.borrow_mut().take() {
            let _ = std::fs::remove_dir_all(p);
        }
    });
}

impl Sim {
    pub fn new(case: &SimCase) -> Sim {
        let dir = thread_dir();
        // clean journals of the previous case
        if let Ok(rd) = std::fs::read_dir(&dir) {
            for e in rd.flatten() {
                let _ = std::fs::remove_file(e.path());
            }
        }
        let params = WorldParams {
            dir,
            prefill: case.prefill,
        };
        tako::verif::clock::set_offset(Duration::ZERO);
        let launch = Rc::new(RefCell::new(LaunchShared::default()));
        if case.genv >= 1 {
            let mut l = launch.borrow_mut();
            l.slow_stop_mod = 3;
            l.slow_stop_salt = case.choices.first().map(|c| c.1 % 3).unwrap_or(0);
        }
        let shared = Rc::new(RefCell::new(Shared {
            step: 0,
            pcalls: Vec::new(),
        }));
        let world = World::new(&params, launch, shared);
        let obs = Rc::new(RefCell::new(Obs::default()));
        obs.borrow_mut().epochs.push(EpochObs::default());
        Sim {
            profile: case.profile.clone(),
            case_choices: case.choices.clone(),
            genv: case.genv,
            last_alloc: None,
            world,
            obs,
            mon: Monitors::default(),
            weights: profile_weights(&case.profile),
            limits: Limits {
                max_workers: 5,
                max_tasks: if case.prefill.is_some() { 40 } else { 120 },
                max_jobs: 6,
            },
            eager: case.eager,
            worker_counter: 0,
            params,
            total_tasks_submitted: 0,
        }
    }

    /// Selector of a cancel / close / forget request. `sel` = 0 keeps the behaviour of old replay
    /// files (exactly the given job).
    fn make_sel(&self, job: JobId, sel: u32) -> Sel {
        match sel {
            0..=5 => Sel::Specific(vec![job.as_num()]),
            6 => Sel::All,
            7 => Sel::LastN(1),
            8 => Sel::LastN(2),
            _ => Sel::Specific(vec![job.as_num(), 4242]),
        }
    }

    fn jobs(&self) -> Vec<(JobId, bool, bool)> {
        // (id, open, terminated)
        let st = self.world.state_ref.get();
        let mut v: Vec<(JobId, bool, bool)> = st
            .jobs()
            .map(|j| (j.job_id, j.is_open(), j.is_terminated()))
            .collect();
        v.sort();
        v
    }

    /// Enumerate the enabled actions with their weights. Order is fixed (monotone choice).
    pub fn enabled(&self, c2: u32) -> Vec<(u32, Action)> {
        let w = &self.weights;
        let mut out: Vec<(u32, Action)> = Vec::new();
        let world = &self.world;
        let n_workers = world.workers.values().filter(|w| w.alive).count();
        let jobs = self.jobs();
        let core_tasks = world.snapshot().tasks.len();

        // deliveries first: shrinking toward "deliver" keeps histories meaningful
        for ws in world.workers.values() {
            if !ws.q.is_empty() {
                out.push((w.to_worker, Action::ToWorker { worker: ws.id }));
            }
        }
        if self.genv >= 1 {
            for ws in world.workers.values() {
                if ws.q.len() >= 2 {
                    out.push((w.to_worker / 3, Action::ToWorkerBurst { worker: ws.id }));
                }
            }
        }
        for ws in world.workers.values() {
            if !ws.r.is_empty() {
                out.push((w.to_server, Action::ToServer { worker: ws.id }));
            } else if !ws.alive {
                out.push((w.to_server, Action::CloseConn { worker: ws.id }));
            }
        }
        if world.server.scheduling_requested() {
            out.push((w.sched, Action::Sched));
        }
        {
            let l = world.launch.borrow();
            let live: Vec<u32> = l
                .live
                .iter()
                .filter(|(_, e)| !l.dead_workers.contains(&e.worker))
                .map(|(k, _)| *k)
                .collect();
            if !live.is_empty() {
                let e = live[sub(c2, 1, live.len())];
                out.push((w.end_finish, Action::EndTask { exec: e, finish: true }));
                let e = live[sub(c2, 2, live.len())];
                out.push((w.end_fail, Action::EndTask { exec: e, finish: false }));
            }
        }
        if !self.eager {
            for (i, c) in world.clients.iter().enumerate() {
                if c.pending.is_some() || (c.streaming_job.is_some() && !c.done) {
                    out.push((w.client_poll, Action::ClientPoll { client: i }));
                }
            }
            if !world.journal.pending.is_empty() {
                out.push((w.journal, Action::JournalStep));
            }
        }
        let pending_clients = world.clients.iter().filter(|c| c.pending.is_some()).count();
        let can_request = pending_clients < 3;
        if n_workers < self.limits.max_workers {
            let boost = if n_workers == 0 { 6 } else { 1 };
            let mut p = if self.genv >= 1 {
                sub(c2, 3, palette::N_WORKER_PALETTE_V1)
            } else {
                sub(c2, 3, palette::N_WORKER_PALETTE)
            };
            if self.genv >= 1
                && matches!(self.profile.as_str(), "placement2" | "steal2" | "progress2")
                && sub(c2, 19, 4) == 0
            {
                // workers with a time limit
                p = 6 + sub(c2, 20, 2);
            }
            out.push((w.connect * boost, Action::Connect { palette: p }));
        }
        if self.genv >= 1 && w.queue_ev > 0 {
            out.push((w.queue_ev, Action::QueueEvent { arg: c2 }));
            if n_workers < self.limits.max_workers
                && world.sim_queues.values().any(|a| !a.is_empty())
            {
                out.push((
                    if self.genv >= 2 { w.queue_ev * 3 } else { w.queue_ev },
                    Action::ConnectAlloc {
                        palette: sub(c2, 3, palette::N_WORKER_PALETTE),
                        pick: c2,
                    },
                ));
            }
        }
        if can_request {
            if self.total_tasks_submitted < self.limits.max_tasks && jobs.len() < self.limits.max_jobs + 2 {
                let boost = if core_tasks == 0 { 4 } else { 1 };
                out.push((w.submit * boost, Action::Submit { arg: c2, invalid: false }));
                out.push((w.submit_invalid, Action::Submit { arg: c2, invalid: true }));
            }
            if jobs.len() < self.limits.max_jobs {
                let mf = match sub(c2, 4, 4) {
                    0 => None,
                    1 => Some(0),
                    2 => Some(1),
                    _ => Some(2),
                };
                out.push((w.open, Action::OpenJob { max_fails: mf }));
            }
            let open: Vec<JobId> = jobs.iter().filter(|j| j.1).map(|j| j.0).collect();
            if !open.is_empty() {
                out.push((
                    w.close,
                    Action::CloseJob {
                        job: open[sub(c2, 5, open.len())],
                        sel: if self.genv >= 1 { 1 + sub(c2, 16, 9) as u32 } else { 0 },
                    },
                ));
            }
            if !jobs.is_empty() {
                let j = jobs[sub(c2, 6, jobs.len())].0;
                let sel = if self.genv >= 1 { 1 + sub(c2, 17, 9) as u32 } else { 0 };
                out.push((w.cancel, Action::Cancel { job: j, sel }));
                let j = jobs[sub(c2, 7, jobs.len())].0;
                let sel = if self.genv >= 1 { 1 + sub(c2, 18, 9) as u32 } else { 0 };
                out.push((w.forget, Action::ForgetJob { job: j, sel }));
                out.push((w.info, Action::JobInfo));
                if self.genv >= 1 {
                    out.push((w.info, Action::Query { arg: c2 }));
                }
                if self.genv >= 2 && !world.server.scheduling_requested() {
                    out.push((w.info, Action::WorkerQuery { arg: c2 }));
                }
            }
            let alive: Vec<WorkerId> = world.workers.values().filter(|w| w.alive).map(|w| w.id).collect();
            if !alive.is_empty() {
                out.push((
                    w.stop_worker,
                    Action::StopWorker {
                        worker: alive[sub(c2, 8, alive.len())],
                    },
                ));
            }
            out.push((w.flush, Action::FlushJournal));
            if w.prune > 0 {
                out.push((w.prune, Action::PruneJournal));
            }
        }
        let alive: Vec<WorkerId> = world.workers.values().filter(|w| w.alive).map(|w| w.id).collect();
        if !alive.is_empty() {
            out.push((
                w.lost,
                Action::Lost {
                    worker: alive[sub(c2, 9, alive.len())],
                    heartbeat: sub(c2, 10, 3) == 0,
                },
            ));
            out.push((
                w.retract_check,
                Action::RetractCheck {
                    worker: alive[sub(c2, 11, alive.len())],
                },
            ));
            out.push((
                w.idle_stop,
                Action::IdleStop {
                    worker: alive[sub(c2, 12, alive.len())],
                },
            ));
        }
        out.push((
            w.advance,
            Action::Advance {
                secs: [3, 40, 130, 330, 1100][sub(c2, 13, 5)],
            },
        ));
        if self.genv >= 1 {
            let near: Vec<WorkerId> = world
                .snapshot()
                .workers
                .iter()
                .filter(|x| {
                    x.remaining.is_some_and(|r| r > Duration::from_secs(250))
                        && world.workers.get(&x.id).is_some_and(|y| y.alive)
                })
                .map(|x| x.id)
                .collect();
            if !near.is_empty() {
                out.push((
                    w.advance,
                    Action::AdvanceNearLimit {
                        worker: near[sub(c2, 21, near.len())],
                    },
                ));
            }
        }
        if w.launch_fail > 0 {
            // mark a not-yet-started task so that its launch fails
            let snap = world.snapshot();
            if !snap.tasks.is_empty() {
                let t = snap.tasks[sub(c2, 14, snap.tasks.len())].id;
                out.push((w.launch_fail, Action::MarkLaunchFail { task: t }));
            }
        }
        if w.crash > 0 {
            out.push((w.crash, Action::Crash { arg: c2 }));
        }
        out.retain(|(w, _)| *w > 0);
        out
    }

    pub fn choose(&self, c: u16, c2: u32) -> Option<Action> {
        let en = self.enabled(c2);
        if en.is_empty() {
            return None;
        }
        let total: u64 = en.iter().map(|(w, _)| *w as u64).sum();
        let mut x = ((c as u64) * total) >> 16;
        for (w, a) in en {
            if x < w as u64 {
                return Some(a);
            }
            x -= w as u64;
        }
        None
    }

    fn record_sent(&mut self) {
        // messages produced since the last call: log them as "sent"
        let step = self.world.step_no();
        let mut obs = self.obs.borrow_mut();
        for ws in self.world.workers.values_mut() {
            for data in ws.new_q.drain(..) {
                if let Ok(m) = tako::comm::deserialize::<
                    tako::internal::messages::worker::ToWorkerMessage,
                >(&data)
                {
                    obs.to_worker_sent.push(MsgObs {
                        step,
                        worker: ws.id,
                        body: summarize_to_worker(&m),
                        processed: true,
                        log_pos: 0,
                    });
                }
            }
            for data in ws.new_r.drain(..) {
                if let Ok(m) = tako::comm::deserialize::<
                    tako::internal::messages::worker::FromWorkerMessage,
                >(&data)
                {
                    obs.to_server_sent.push(MsgObs {
                        step,
                        worker: ws.id,
                        body: summarize_from_worker(&m),
                        processed: true,
                        log_pos: 0,
                    });
                }
            }
        }
    }

    /// Apply one action. Returns a short description for the trace.
    pub async fn apply(&mut self, action: Action) -> String {
        let step = self.world.step_no();
        let desc = match action {
            Action::Connect { palette } => {
                let (desc, group, limit) = palette::worker_descriptor(palette);
                self.worker_counter += 1;
                let cfg = palette::worker_configuration(desc, group, limit, self.worker_counter);
                let id = self.world.connect_worker(cfg, palette);
                format!("connect w{id} palette={palette}")
            }
            Action::ConnectAlloc { palette, pick } => {
                let (desc, group, limit) = palette::worker_descriptor(palette);
                self.worker_counter += 1;
                let mut cfg = palette::worker_configuration(desc, group, limit, self.worker_counter);
                let allocs: Vec<(u32, String)> = self
                    .world
                    .sim_queues
                    .iter()
                    .flat_map(|(q, a)| a.iter().map(|x| (*q, x.clone())))
                    .collect();
                // generator version >= 2: every other worker joins the allocation of the previous
                // one (allocations with several workers, possibly with different resources)
                let (q, alloc) = match &self.last_alloc {
                    Some(l) if self.genv >= 2 && sub(pick, 155, 2) == 0 && allocs.contains(l) => l.clone(),
                    _ => allocs[sub(pick, 151, allocs.len())].clone(),
                };
                self.last_alloc = Some((q, alloc.clone()));
                let info = hyperqueue::common::manager::info::ManagerInfo {
                    manager: hyperqueue::common::manager::info::ManagerType::Slurm,
                    allocation_id: alloc.clone(),
                    time_limit: None,
                    max_memory_mb: None,
                };
                cfg.extra.insert(
                    hyperqueue::common::manager::info::WORKER_EXTRA_MANAGER_KEY.to_string(),
                    serde_json::to_string(&info).unwrap(),
                );
                let extra = cfg.extra.clone();
                let id = self.world.connect_worker(cfg, palette);
                self.obs.borrow_mut().class("worker-from-allocation");
                let mut d = format!("connect w{id} palette={palette} allocation={alloc} of queue {q}");
                // generator version >= 2: every other time a second worker of the same allocation
                // with other resources connects right away
                let n_alive = self.world.workers.values().filter(|w| w.alive).count();
                if self.genv >= 2 && sub(pick, 156, 2) == 0 && n_alive < self.limits.max_workers {
                    let p2 = (palette + 1 + sub(pick, 157, palette::N_WORKER_PALETTE - 1)) % palette::N_WORKER_PALETTE;
                    let (desc, group, limit) = palette::worker_descriptor(p2);
                    self.worker_counter += 1;
                    let mut cfg2 = palette::worker_configuration(desc, group, limit, self.worker_counter);
                    cfg2.extra = extra;
                    let id2 = self.world.connect_worker(cfg2, p2);
                    self.obs.borrow_mut().class("allocation-with-several-workers");
                    d.push_str(&format!("; connect w{id2} palette={p2} same allocation"));
                }
                d
            }
            Action::QueueEvent { arg } => {
                let ev = self.world.senders.events.clone();
                let live: Vec<u32> = self.world.sim_queues.keys().copied().collect();
                let kind = if live.is_empty() { 0 } else { sub(arg, 150, 7) };
                match kind {
                    0 | 1 if live.len() < 3 => {
                        let id = self.world.queue_counter;
                        self.world.queue_counter += 1;
                        ev.on_allocation_queue_created(id, palette::queue_parameters(arg));
                        self.world.sim_queues.insert(id, Vec::new());
                        self.obs.borrow_mut().class("queue-created");
                        format!("queue-event: created queue {id}")
                    }
                    2 => {
                        let q = live[sub(arg, 152, live.len())];
                        ev.on_allocation_queue_removed(q);
                        self.world.sim_queues.remove(&q);
                        self.obs.borrow_mut().class("queue-removed");
                        format!("queue-event: removed queue {q}")
                    }
                    3 | 4 | 0 | 1 => {
                        let q = live[sub(arg, 152, live.len())];
                        self.world.alloc_counter += 1;
                        let a = format!("alloc-{}", self.world.alloc_counter);
                        ev.on_allocation_queued(q, a.clone(), 1 + sub(arg, 153, 3) as u64);
                        self.world.sim_queues.get_mut(&q).unwrap().push(a.clone());
                        format!("queue-event: allocation {a} queued in queue {q}")
                    }
                    _ => {
                        let q = live[sub(arg, 152, live.len())];
                        let allocs = self.world.sim_queues[&q].clone();
                        if allocs.is_empty() {
                            format!("queue-event: nothing (queue {q} has no allocation)")
                        } else {
                            let a = allocs[sub(arg, 154, allocs.len())].clone();
                            if kind == 5 {
                                ev.on_allocation_started(q, a.clone());
                                format!("queue-event: allocation {a} started")
                            } else {
                                ev.on_allocation_finished(q, a.clone());
                                format!("queue-event: allocation {a} finished")
                            }
                        }
                    }
                }
            }
            Action::WorkerQuery { arg } => {
                // what `perform_submits` of the autoalloc process asks the scheduler: one query per
                // allocation queue, built as `create_queue_worker_query` does (resources of a
                // worker that connected from the queue / the resource hints of the command line as
                // a partial descriptor / nothing known)
                use tako::control::WorkerTypeQuery;
                let n = 1 + sub(arg, 200, 3);
                let mut queries = Vec::new();
                let mut what = Vec::new();
                for i in 0..n as u32 {
                    let p = palette::queue_parameters(arg.wrapping_add(i.wrapping_mul(7919)));
                    let pal = sub(arg, 204 + i, palette::N_WORKER_PALETTE);
                    let (descriptor, partial) = match sub(arg, 201 + i, 3) {
                        0 => (palette::worker_descriptor(pal).0, false),
                        1 => (palette::worker_descriptor(pal).0, true),
                        _ => (tako::resources::ResourceDescriptor::new(vec![], Default::default()), true),
                    };
                    what.push(format!(
                        "{}{}",
                        if partial { "partial:" } else { "exact:" },
                        if descriptor.resources.is_empty() { "-".to_string() } else { format!("p{pal}") }
                    ));
                    queries.push(WorkerTypeQuery {
                        descriptor,
                        partial,
                        time_limit: Some(p.timelimit),
                        max_sn_workers: p.backlog * p.max_workers_per_alloc,
                        max_workers_per_allocation: p.max_workers_per_alloc,
                        min_utilization: p.min_utilization,
                    });
                }
                let r = self.world.server.server_ref().new_worker_query(&queries);
                self.obs.borrow_mut().class("worker-query");
                match r {
                    Ok(resp) => {
                        let mut bad = resp.single_node_workers_per_query.len() != queries.len();
                        for (c, q) in resp.single_node_workers_per_query.iter().zip(&queries) {
                            bad |= *c > q.max_sn_workers;
                        }
                        for m in &resp.multi_node_allocations {
                            bad |= m.worker_type >= queries.len();
                        }
                        if bad {
                            let step = self.world.step_no();
                            self.obs.borrow_mut().alarm(
                                "C09",
                                step,
                                "worker query answered with more workers than asked for or for an unknown query",
                                format!("{what:?} -> {resp:?}"),
                            );
                        }
                        format!("worker-query {what:?} -> {:?} mn={}", resp.single_node_workers_per_query, resp.multi_node_allocations.len())
                    }
                    Err(e) => format!("worker-query {what:?} -> error {e:?}"),
                }
            }
            Action::Submit { arg, invalid } => self.do_submit(arg, invalid),
            Action::OpenJob { max_fails } => {
                let c = self.world.idle_client();
                self.world.send_request(
                    c,
                    FromClientMessage::OpenJob(JobDescription {
                        name: "open".to_string(),
                        max_fails,
                    }),
                    "open",
                    false,
                );
                format!("open-job max_fails={max_fails:?} client={c}")
            }
            Action::CloseJob { job, sel } => {
                let c = self.world.idle_client();
                let s = self.make_sel(job, sel);
                self.world.send_request_sel(
                    c,
                    FromClientMessage::CloseJob(CloseJobRequest {
                        selector: s.to_selector(),
                    }),
                    "close",
                    s.clone(),
                    Vec::new(),
                );
                format!("close-job {s:?} client={c}")
            }
            Action::Cancel { job, sel } => {
                let c = self.world.idle_client();
                let s = self.make_sel(job, sel);
                self.world.send_request_sel(
                    c,
                    FromClientMessage::Cancel(CancelRequest {
                        selector: s.to_selector(),
                        reason: None,
                    }),
                    &format!("cancel:{}", job.as_num()),
                    s.clone(),
                    Vec::new(),
                );
                let snapshot: BTreeMap<u32, Vec<u32>> = monitors::job_views(&self.world)
                    .iter()
                    .map(|(j, v)| {
                        (
                            j.as_num(),
                            v.tasks
                                .iter()
                                .filter(|(_, k)| !k.terminal())
                                .map(|(id, _)| *id)
                                .collect(),
                        )
                    })
                    .collect();
                if let Some(p) = self.world.clients[c].pending.as_mut() {
                    p.unfinished_at_send = snapshot;
                }
                format!("cancel-job {s:?} client={c}")
            }
            Action::ForgetJob { job, sel } => {
                use hyperqueue::client::status::Status;
                let c = self.world.idle_client();
                let s = self.make_sel(job, sel);
                let filter = match if sel == 0 { 0 } else { sub(sel, 171, 5) } {
                    0 | 1 => vec![Status::Finished, Status::Failed, Status::Canceled, Status::Aborted],
                    2 => vec![Status::Finished],
                    3 => vec![Status::Failed, Status::Canceled],
                    _ => vec![Status::Canceled, Status::Aborted, Status::Opened, Status::Waiting],
                };
                self.world.send_request_sel(
                    c,
                    FromClientMessage::ForgetJob(ForgetJobRequest {
                        selector: s.to_selector(),
                        filter: filter.clone(),
                    }),
                    &format!("forget:{}", job.as_num()),
                    s.clone(),
                    filter.clone(),
                );
                format!("forget-job {s:?} filter={filter:?} client={c}")
            }
            Action::Query { arg } => {
                use hyperqueue::transfer::messages::{
                    SingleIdSelector, TaskExplainRequest, WorkerInfoRequest,
                };
                let c = self.world.idle_client();
                let jobs = self.jobs();
                let (msg, d) = match sub(arg, 180, 8) {
                    0 => (FromClientMessage::GetList { workers: true }, "get-list".to_string()),
                    1 => {
                        let s = match sub(arg, 181, 3) {
                            0 => Sel::All,
                            1 => Sel::LastN(2),
                            _ => Sel::Specific(vec![1 + sub(arg, 182, 6) as u32, 99]),
                        };
                        (
                            FromClientMessage::WorkerInfo(WorkerInfoRequest {
                                selector: s.to_selector(),
                                runtime_info: sub(arg, 183, 2) == 0,
                            }),
                            format!("worker-info {s:?}"),
                        )
                    }
                    2 => (FromClientMessage::ServerInfo, "server-info".to_string()),
                    3 | 4 => {
                        let js = if jobs.is_empty() || sub(arg, 184, 5) == 0 {
                            SingleIdSelector::Last
                        } else if sub(arg, 184, 5) == 1 {
                            SingleIdSelector::Specific(4242)
                        } else {
                            SingleIdSelector::Specific(jobs[sub(arg, 185, jobs.len())].0.as_num())
                        };
                        let t = sub(arg, 186, 8) as u32;
                        (
                            FromClientMessage::TaskExplain(TaskExplainRequest {
                                job_selector: js.clone(),
                                task_id: t.into(),
                            }),
                            format!("task-explain {js:?} task {t}"),
                        )
                    }
                    5 => (
                        FromClientMessage::ServerDebugDump(self.params.dir.join("debug-dump.json")),
                        "debug-dump".to_string(),
                    ),
                    6 => {
                        let s = match sub(arg, 187, 3) {
                            0 => Sel::LastN(1 + sub(arg, 188, 3) as u32),
                            1 => Sel::Specific(vec![1 + sub(arg, 188, 6) as u32, 4242]),
                            _ => Sel::All,
                        };
                        (
                            FromClientMessage::JobInfo(
                                JobInfoRequest {
                                    selector: s.to_selector(),
                                    include_running_tasks: sub(arg, 189, 2) == 0,
                                },
                                None,
                            ),
                            format!("job-info {s:?}"),
                        )
                    }
                    _ => {
                        use hyperqueue::client::status::Status;
                        let s = match sub(arg, 187, 3) {
                            0 => Sel::LastN(1 + sub(arg, 188, 3) as u32),
                            1 => Sel::Specific(vec![1 + sub(arg, 188, 6) as u32, 4242]),
                            _ => Sel::All,
                        };
                        let ts = match sub(arg, 190, 4) {
                            0 => None,
                            1 => Some(TaskSelector {
                                id_selector: TaskIdSelector::Specific(palette::int_array(&[0, 1, 2, 500])),
                                status_selector: TaskStatusSelector::All,
                            }),
                            2 => Some(TaskSelector {
                                id_selector: TaskIdSelector::All,
                                status_selector: TaskStatusSelector::Specific(vec![
                                    Status::Running,
                                    Status::Failed,
                                ]),
                            }),
                            _ => Some(TaskSelector {
                                id_selector: TaskIdSelector::All,
                                status_selector: TaskStatusSelector::All,
                            }),
                        };
                        (
                            FromClientMessage::JobDetail(JobDetailRequest {
                                job_id_selector: s.to_selector(),
                                task_selector: ts,
                            }),
                            format!("job-detail {s:?}"),
                        )
                    }
                };
                self.world.send_request(c, msg, "query", false);
                self.obs.borrow_mut().class("query");
                format!("query {d} client={c}")
            }
            Action::JobInfo => {
                let c = self.world.idle_client();
                let msg = if step % 2 == 0 {
                    FromClientMessage::JobInfo(
                        JobInfoRequest {
                            selector: IdSelector::All,
                            include_running_tasks: true,
                        },
                        None,
                    )
                } else {
                    FromClientMessage::JobDetail(JobDetailRequest {
                        job_id_selector: IdSelector::All,
                        task_selector: Some(TaskSelector {
                            id_selector: TaskIdSelector::All,
                            status_selector: TaskStatusSelector::All,
                        }),
                    })
                };
                self.world.send_request(c, msg, "info", false);
                format!("job-info client={c}")
            }
            Action::StopWorker { worker } => {
                let c = self.world.idle_client();
                self.world.send_request(
                    c,
                    FromClientMessage::StopWorker(StopWorkerMessage {
                        selector: IdSelector::Specific(palette::int_array(&[worker.as_num()])),
                    }),
                    "stop-worker",
                    false,
                );
                format!("stop-worker w{worker} client={c}")
            }
            Action::FlushJournal => {
                let c = self.world.idle_client();
                self.world
                    .send_request(c, FromClientMessage::FlushJournal, "flush", false);
                format!("flush-journal client={c}")
            }
            Action::PruneJournal => {
                let c = self.world.idle_client();
                self.world
                    .send_request(c, FromClientMessage::PruneJournal, "prune", false);
                format!("prune-journal client={c}")
            }
            Action::ClientPoll { client } => {
                self.poll_client(client);
                format!("client-poll {client}")
            }
            Action::JournalStep => {
                self.world.journal_step();
                "journal-step".to_string()
            }
            Action::ToWorker { worker } => {
                let alive = self.world.workers.get(&worker).map(|w| w.alive).unwrap_or(false);
                let log_pos = self.world.launch.borrow().log.len();
                let m = self.world.deliver_to_worker(worker);
                if let Some(m) = m {
                    let body = summarize_to_worker(&m);
                    let d = format!("to-worker w{worker}: {body:?}");
                    self.obs.borrow_mut().to_worker.push(MsgObs {
                        step,
                        worker,
                        body,
                        processed: alive,
                        log_pos,
                    });
                    d
                } else {
                    format!("to-worker w{worker}: <nothing>")
                }
            }
            Action::ToWorkerBurst { worker } => {
                let alive = self.world.workers.get(&worker).map(|w| w.alive).unwrap_or(false);
                let mut ds = Vec::new();
                for _ in 0..3 {
                    let log_pos = self.world.launch.borrow().log.len();
                    let Some(m) = self.world.deliver_to_worker(worker) else {
                        break;
                    };
                    let body = summarize_to_worker(&m);
                    ds.push(format!("{body:?}"));
                    self.obs.borrow_mut().to_worker.push(MsgObs {
                        step,
                        worker,
                        body,
                        processed: alive,
                        log_pos,
                    });
                }
                self.obs.borrow_mut().class("burst-delivery");
                format!("to-worker w{worker} (burst): {}", ds.join(" | "))
            }
            Action::ToServer { worker } => {
                let r = self.world.deliver_to_server(worker);
                if let Some((m, lost)) = r {
                    let body = summarize_from_worker(&m);
                    let d = format!("to-server w{worker}: {body:?} lost={lost:?}");
                    let mut obs = self.obs.borrow_mut();
                    obs.to_server.push(MsgObs {
                        step,
                        worker,
                        body,
                        processed: true,
                        log_pos: 0,
                    });
                    if let Some(reason) = lost {
                        obs.losses.push(LossObs {
                            step,
                            worker,
                            reason,
                        });
                    }
                    d
                } else {
                    format!("to-server w{worker}: <nothing>")
                }
            }
            Action::CloseConn { worker } => {
                let lost = self.world.close_connection(worker);
                if let Some(reason) = lost {
                    self.obs.borrow_mut().losses.push(LossObs {
                        step,
                        worker,
                        reason,
                    });
                }
                format!("close-conn w{worker} lost={lost:?}")
            }
            Action::Sched => {
                let now = self.world.now();
                let r = self.world.server.run_scheduling(now);
                if r == SchedOutcome::NeedMoreCompute || r == SchedOutcome::NoProgress {
                    self.obs.borrow_mut().class("sched-nonoptimal");
                }
                format!("sched {r:?}")
            }
            Action::EndTask { exec, finish } => {
                let mut l = self.world.launch.borrow_mut();
                let mut d = format!("end-task exec={exec}: gone");
                if let Some(e) = l.live.get_mut(&exec) {
                    if let Some(tx) = e.resolver.take() {
                        let _ = tx.send(if finish {
                            Resolution::Finish
                        } else {
                            Resolution::Fail
                        });
                        d = format!(
                            "end-task exec={exec} task={} w{} {}",
                            e.task,
                            e.worker,
                            if finish { "finish" } else { "fail" }
                        );
                    }
                }
                d
            }
            Action::Advance { secs } => {
                self.world.advance_time(Duration::from_secs(secs)).await;
                format!("advance {secs}s")
            }
            Action::AdvanceNearLimit { worker } => {
                let rem = self
                    .world
                    .snapshot()
                    .workers
                    .iter()
                    .find(|x| x.id == worker)
                    .and_then(|x| x.remaining);
                match rem {
                    Some(r) if r > Duration::from_secs(250) => {
                        let d = r - Duration::from_secs(150);
                        self.world.advance_time(d).await;
                        self.obs.borrow_mut().class("near-time-limit");
                        format!("advance {}s (w{worker} has 150 s left)", d.as_secs())
                    }
                    _ => format!("advance-near-limit w{worker}: nothing"),
                }
            }
            Action::RetractCheck { worker } => {
                if let Some(w) = self.world.workers.get(&worker) {
                    if w.alive {
                        w.sim.retract_check();
                    }
                }
                format!("retract-check w{worker}")
            }
            Action::IdleStop { worker } => {
                let ok = self.world.server.idle_stop(worker);
                format!("idle-stop w{worker} applied={ok}")
            }
            Action::Lost { worker, heartbeat } => {
                let reason = if heartbeat {
                    LostWorkerReason::HeartbeatLost
                } else {
                    LostWorkerReason::ConnectionLost
                };
                let used = self.world.finish_worker(worker, reason);
                self.obs.borrow_mut().losses.push(LossObs {
                    step,
                    worker,
                    reason: used,
                });
                format!("lost w{worker} {used:?}")
            }
            Action::MarkLaunchFail { task } => {
                self.world.launch.borrow_mut().fail_launch.insert(task);
                format!("mark-launch-fail {task}")
            }
            Action::Crash { arg } => self.do_crash(arg).await,
        };
        self.world.settle().await;
        // the action itself is one micro step for the monitors; client polls follow as their own
        self.record_sent();
        self.mon.after_step(&self.world, &mut self.obs.borrow_mut());
        if self.eager {
            self.service_io().await;
        }
        self.record_sent();
        desc
    }

    /// Pump the journal completely and poll clients until nothing moves.
    pub async fn service_io(&mut self) {
        for _ in 0..50 {
            let mut progress = false;
            self.world.pump();
            while self.world.journal_step() {
                progress = true;
            }
            for c in 0..self.world.clients.len() {
                if self.world.clients[c].pending.is_some()
                    || (self.world.clients[c].streaming_job.is_some() && !self.world.clients[c].done)
                {
                    if self.poll_client(c) {
                        progress = true;
                    }
                }
            }
            self.world.settle().await;
            if !self.world.journal.pending.is_empty() {
                progress = true;
            }
            if !progress {
                break;
            }
        }
    }

    /// Returns true if the client received something
    pub fn poll_client(&mut self, c: usize) -> bool {
        let kind = self.world.clients[c]
            .pending
            .as_ref()
            .map(|p| p.kind.clone());
        let mut msgs = self.world.poll_client(c);
        if kind.as_deref() == Some("forget") || kind.as_deref().is_some_and(|k| k.starts_with("forget")) {
            // ForgetJob drops jobs on a blocking thread; wait for it (bounded) so that the
            // outcome does not depend on thread timing
            let mut spins = 0;
            while msgs.is_empty() && spins < 2000 && self.world.clients[c].fut.is_some() {
                std::thread::sleep(Duration::from_micros(200));
                msgs = self.world.poll_client(c);
                spins += 1;
            }
        }
        let got = !msgs.is_empty();
        let step = self.world.step_no();
        // one poll = one micro step for the monitors
        self.world.pump();
        self.record_sent();
        self.mon.current_client = Some(c);
        self.mon.current_sel = self.world.clients[c].pending.as_ref().and_then(|p| p.sel.clone());
        self.mon.after_step(&self.world, &mut self.obs.borrow_mut());
        self.mon.current_client = None;
        self.mon.current_sel = None;
        for m in msgs {
            match m {
                ToClientMessage::Event(e) => {
                    self.world.clients[c].streamed.push(e);
                }
                ToClientMessage::EventLiveBoundary => {}
                other => {
                    let pending = self.world.clients[c].pending.take();
                    if let Some(p) = &pending {
                        if p.stream {
                            if let ToClientMessage::SubmitResponse(
                                hyperqueue::transfer::messages::SubmitResponse::Ok { job, .. },
                            ) = &other
                            {
                                self.world.clients[c].streaming_job = Some(job.info.id);
                            }
                        }
                    }
                    self.mon
                        .on_response(&self.world, &mut self.obs.borrow_mut(), step, c, pending, other);
                }
            }
        }
        got
    }

    fn do_submit(&mut self, arg: u32, invalid: bool) -> String {
        let jobs = self.jobs();
        let open: Vec<JobId> = jobs.iter().filter(|j| j.1).map(|j| j.0).collect();
        let into_open = !open.is_empty() && sub(arg, 20, 3) != 0;
        let mut job_id = if into_open {
            Some(open[sub(arg, 21, open.len())])
        } else {
            None
        };
        let small = self.world.sched_cfg.0 < 16;
        let rq_idx = match self.weights_profile_rq(arg) {
            Some(i) => i,
            None => sub(arg, 22, palette::N_RQ_PALETTE),
        };
        let prio = palette::PRIORITIES[sub(arg, 23, palette::PRIORITIES.len())];
        let crash = palette::crash_limit(sub(arg, 24, 6));
        let time_limit = if sub(arg, 25, 6) == 0 {
            Some(Duration::from_secs(50))
        } else {
            None
        };
        let max_fails = match sub(arg, 26, 5) {
            0 => Some(0),
            1 => Some(1),
            2 => Some(2),
            _ => None,
        };
        let with_stream = sub(arg, 27, 8) == 0 && !invalid;
        let graph = sub(arg, 28, 3) == 0;
        let existing_ids: Vec<u32> = job_id
            .and_then(|j| {
                self.world.state_ref.get().get_job(j).map(|job| {
                    let mut v: Vec<u32> = job.tasks.keys().map(|k| k.as_num()).collect();
                    v.sort_unstable();
                    v
                })
            })
            .unwrap_or_default();
        let max_existing = existing_ids.iter().max().copied();
        let desc = palette::task_description(prio, crash, time_limit);
        let n = if small || graph {
            1 + sub(arg, 29, 6)
        } else {
            [1, 3, 20, 35, 60][sub(arg, 29, 5)]
        };
        let mut what;
        let request = if !graph {
            let auto_ids = sub(arg, 30, 2) == 0;
            let with_entries = sub(arg, 31, 3) == 0;
            let entries = if with_entries {
                Some((0..n).map(|i| vec![b'e', i as u8].into_iter().collect()).collect())
            } else {
                None
            };
            let ids = if auto_ids {
                hyperqueue::common::arraydef::IntArray::new_empty()
            } else {
                let start = max_existing.map(|m| m + 1 + sub(arg, 32, 3) as u32).unwrap_or(sub(arg, 32, 3) as u32);
                use hyperqueue::common::arraydef::{IntArray, IntRange};
                let shape = if self.genv >= 1 {
                    sub(arg, 33, 8)
                } else if sub(arg, 33, 4) == 0 {
                    0
                } else {
                    7
                };
                match shape {
                    0 | 1 if !with_entries => {
                        // stepped range
                        palette::stepped_range(start, (n as u32) * 2, 2)
                    }
                    2 if n >= 2 => {
                        // two ranges written in descending order (e.g. `10-12,1-3`)
                        let n1 = 1 + sub(arg, 36, n - 1) as u32;
                        let n2 = n as u32 - n1;
                        let gap = sub(arg, 37, 3) as u32;
                        IntArray::new(vec![
                            IntRange::new(start + n1 + gap, n2, 1),
                            IntRange::new(start, n1, 1),
                        ])
                    }
                    3 if n >= 3 => {
                        // three single ids / ranges in arbitrary order, with holes
                        let a = start + 7;
                        let b = start;
                        let c = start + 3;
                        IntArray::new(vec![
                            IntRange::new(a, n as u32 - 2, 1),
                            IntRange::new(b, 1, 1),
                            IntRange::new(c, 1, 1),
                        ])
                    }
                    4 if max_existing.is_some() => {
                        // ids that are still free below the largest existing id (holes), then above
                        let used: BTreeSet<u32> = existing_ids.iter().copied().collect();
                        let mut free: Vec<u32> = (0..max_existing.unwrap())
                            .filter(|i| !used.contains(i))
                            .take(n)
                            .collect();
                        let mut next = max_existing.unwrap() + 1;
                        while free.len() < n {
                            free.push(next);
                            next += 1;
                        }
                        // highest first
                        free.reverse();
                        IntArray::new(free.into_iter().map(|i| IntRange::new(i, 1, 1)).collect())
                    }
                    _ => palette::int_array(&(start..start + n as u32).collect::<Vec<_>>()),
                }
            };
            what = format!(
                "array n={} auto_ids={auto_ids} entries={with_entries} rq={rq_idx} prio={prio} crash={crash} tl={time_limit:?}",
                if auto_ids && !with_entries { 1 } else { n }
            );
            let mut ids = ids;
            if invalid {
                match sub(arg, 34, 3) {
                    0 if !existing_ids.is_empty() => {
                        // duplicate id
                        ids = palette::int_array(&[existing_ids[0], existing_ids[0] + 1000]);
                        what.push_str(" INVALID(dup-id)");
                    }
                    1 => {
                        job_id = Some(JobId::new(999));
                        what.push_str(" INVALID(unknown-job)");
                    }
                    _ => {
                        // closed job
                        if let Some(j) = jobs.iter().find(|j| !j.1) {
                            job_id = Some(j.0);
                            ids = palette::int_array(&[5000, 5001]);
                            what.push_str(" INVALID(closed-job)");
                        } else {
                            job_id = Some(JobId::new(998));
                            what.push_str(" INVALID(unknown-job)");
                        }
                    }
                }
            }
            palette::array_submit(
                job_id,
                ids,
                entries,
                palette::request(rq_idx),
                desc,
                max_fails,
                "array",
            )
        } else {
            // random DAG; ids continue after existing ids; deps on earlier tasks of this submit
            // and on existing tasks of the job
            let start = max_existing.map(|m| m + 1).unwrap_or(sub(arg, 32, 2) as u32);
            let rq2 = if self.genv >= 1 {
                sub(arg, 35, palette::N_RQ_PALETTE_V1)
            } else {
                sub(arg, 35, palette::N_RQ_PALETTE)
            };
            let rqs = vec![palette::request(rq_idx), palette::request(rq2)];
            let mut tasks = Vec::new();
            // task ids need not ascend in the order in which a graph lists its tasks (job files
            // are sorted topologically, the Python API uses the order of definition)
            let id_of = |i: u32| -> u32 {
                if self.genv < 1 {
                    return start + i;
                }
                match sub(arg, 36, 4) {
                    0 => start + (n as u32 - 1 - i),
                    1 => {
                        // neighbours swapped
                        let j = i ^ 1;
                        start + if j < n as u32 { j } else { i }
                    }
                    _ => start + i,
                }
            };
            for i in 0..n as u32 {
                let id = id_of(i);
                let mut deps: Vec<u32> = Vec::new();
                let k = sub(arg, 40 + i, 4); // 0..3 deps
                for d in 0..k {
                    let pool = i as usize + existing_ids.len();
                    if pool == 0 {
                        break;
                    }
                    let x = sub(arg, 60 + i * 4 + d as u32, pool);
                    let dep = if x < i as usize {
                        id_of(x as u32)
                    } else {
                        existing_ids[x - i as usize]
                    };
                    if !deps.contains(&dep) {
                        deps.push(dep);
                    }
                }
                // a dependency may be named more than once (job files and the Python API pass
                // repeated ids through)
                if self.genv >= 1 && !deps.is_empty() && sub(arg, 130 + i, 5) == 0 {
                    let d = deps[sub(arg, 140 + i, deps.len())];
                    deps.push(d);
                }
                let rq_local = if sub(arg, 80 + i, 3) == 0 { 1 } else { 0 };
                let own_desc = if self.genv >= 1 {
                    sub(arg, 90 + i, 3) == 0
                } else {
                    sub(arg, 90 + i, 4) == 0
                };
                let tdesc = if own_desc {
                    palette::task_description(
                        palette::PRIORITIES[sub(arg, 100 + i, palette::PRIORITIES.len())],
                        palette::crash_limit(sub(arg, 110 + i, 6)),
                        match if self.genv >= 1 { sub(arg, 120 + i, 4) } else { 3 } {
                            0 => Some(Duration::from_secs(50)),
                            1 => Some(Duration::from_secs(20)),
                            2 => None,
                            _ => time_limit,
                        },
                    )
                } else {
                    desc.clone()
                };
                tasks.push((id, rq_local as u32, tdesc, deps));
            }
            what = format!("graph n={n} rq={rq_idx}/{rq2} prio={prio} crash={crash} tl={time_limit:?} tasks={:?}", tasks.iter().map(|t| (t.0, t.3.clone())).collect::<Vec<_>>());
            if invalid {
                match if self.genv >= 1 { sub(arg, 34, 6) } else { sub(arg, 34, 4) } {
                    4 if tasks.len() > 1 => {
                        // dependency on a task listed later in the same submit
                        let later = tasks[tasks.len() - 1].0;
                        tasks[0].3.push(later);
                        what.push_str(" INVALID(forward-dep)");
                    }
                    5 if tasks.len() > 1 => {
                        // two-cycle
                        let a = tasks[0].0;
                        let b = tasks[1].0;
                        tasks[0].3.push(b);
                        if !tasks[1].3.contains(&a) {
                            tasks[1].3.push(a);
                        }
                        what.push_str(" INVALID(cycle)");
                    }
                    0 | 4 | 5 => {
                        let id = tasks[0].0;
                        tasks[0].3.push(id);
                        what.push_str(" INVALID(self-dep)");
                    }
                    1 => {
                        tasks[0].3.push(77_777);
                        what.push_str(" INVALID(unknown-dep)");
                    }
                    2 if tasks.len() > 1 => {
                        tasks[1].0 = tasks[0].0;
                        what.push_str(" INVALID(non-unique)");
                    }
                    _ => {
                        if let Some(first) = existing_ids.first() {
                            tasks[0].0 = *first;
                            what.push_str(" INVALID(dup-id)");
                        } else {
                            job_id = Some(JobId::new(997));
                            what.push_str(" INVALID(unknown-job)");
                        }
                    }
                }
            }
            palette::graph_submit(job_id, rqs, tasks, max_fails, "graph")
        };
        let n_tasks = request.submit_desc.task_desc.task_count() as usize;
        self.total_tasks_submitted += n_tasks.min(200);
        let c = if with_stream {
            self.world.new_client()
        } else {
            self.world.idle_client()
        };
        let stream = if with_stream {
            Some(StreamEvents {
                mode: StreamEventsMode::LiveEvents,
                enable_worker_overviews: false,
                filter: EventFilter::all_events(),
            })
        } else {
            None
        };
        self.mon.on_submit_sent(c, &request, invalid);
        self.world.send_request(
            c,
            FromClientMessage::Submit(request, stream),
            "submit",
            with_stream,
        );
        format!(
            "submit job={job_id:?} max_fails={max_fails:?} stream={with_stream} client={c} {what}"
        )
    }

    /// Request class of a submit. Generator version >= 1 knows three more classes (variants that
    /// differ only in amounts); the placement / steal profiles prefer them.
    fn weights_profile_rq(&self, arg: u32) -> Option<usize> {
        if self.genv < 1 {
            return None;
        }
        let prefer = matches!(self.profile.as_str(), "placement" | "steal" | "resources" | "placement2" | "steal2");
        if prefer && sub(arg, 191, 3) == 0 {
            return Some(14 + sub(arg, 192, 3));
        }
        // tasks with a time request (they meet workers with a time limit, see `enabled`)
        if matches!(self.profile.as_str(), "placement2" | "steal2" | "progress2") && sub(arg, 193, 5) == 0 {
            return Some(10);
        }
        Some(sub(arg, 22, palette::N_RQ_PALETTE_V1))
    }

    async fn do_crash(&mut self, _arg: u32) -> String {
        "crash (not implemented)".to_string()
    }

    /// Fault-free suffix: deliver everything, run the scheduler, finish every task body.
    pub async fn drain(&mut self, with_capable_worker: bool) -> bool {
        // everything still marked for launch failure stays so; no more faults
        if with_capable_worker {
            self.worker_counter += 1;
            let cfg = palette::worker_configuration(
                palette::capable_worker_descriptor(),
                "a",
                None,
                self.worker_counter,
            );
            let id1 = self.world.connect_worker(cfg.clone(), 100);
            // two more members of group "a" so that 3-node tasks can run
            self.worker_counter += 1;
            let cfg2 = palette::worker_configuration(
                palette::capable_worker_descriptor(),
                "a",
                None,
                self.worker_counter,
            );
            self.world.connect_worker(cfg2, 100);
            self.worker_counter += 1;
            let cfg3 = palette::worker_configuration(
                palette::capable_worker_descriptor(),
                "a",
                None,
                self.worker_counter,
            );
            self.world.connect_worker(cfg3, 100);
            let step = self.world.step_no() + 1;
            self.world.set_step(step);
            self.obs.borrow_mut().trace.push(format!("[drain] connect capable workers w{id1}.."));
            self.world.settle().await;
            self.record_sent();
            self.mon.after_step(&self.world, &mut self.obs.borrow_mut());
        }
        for _round in 0..3000 {
            let mut progress = false;
            let step = self.world.step_no() + 1;
            self.world.set_step(step);
            // choose the first enabled progress action in a fixed order
            let ids: Vec<WorkerId> = self.world.workers.keys().copied().collect();
            let mut action = None;
            for id in &ids {
                let w = &self.world.workers[id];
                if !w.q.is_empty() {
                    action = Some(Action::ToWorker { worker: *id });
                    break;
                }
                if !w.r.is_empty() {
                    action = Some(Action::ToServer { worker: *id });
                    break;
                }
                if !w.alive {
                    action = Some(Action::CloseConn { worker: *id });
                    break;
                }
            }
            if action.is_none() && self.world.server.scheduling_requested() {
                action = Some(Action::Sched);
            }
            if action.is_none() {
                let l = self.world.launch.borrow();
                if let Some((k, _)) = l
                    .live
                    .iter()
                    .find(|(_, e)| !l.dead_workers.contains(&e.worker) && e.resolver.is_some())
                {
                    action = Some(Action::EndTask {
                        exec: *k,
                        finish: true,
                    });
                }
            }
            if let Some(a) = action {
                self.obs.borrow_mut().trace.push(format!("[drain] {a:?} (did not complete)"));
                let d = self.apply(a).await;
                *self.obs.borrow_mut().trace.last_mut().unwrap() = format!("{step}: [drain] {d}");
                progress = true;
            }
            // service clients and journal
            let before = self.world.journal.pending.len();
            self.service_io().await;
            if before > 0 {
                progress = true;
            }
            self.record_sent();
            self.mon.after_step(&self.world, &mut self.obs.borrow_mut());
            if self.obs.borrow().alarms.iter().any(|a| a.prop == "C09") {
                return false;
            }
            if !progress {
                let any_pending = self.world.workers.values().any(|w| !w.q.is_empty() || !w.r.is_empty())
                    || self.world.server.scheduling_requested();
                if !any_pending {
                    return true;
                }
            }
        }
        false
    }
}

// ---------------------------------------------------------------------------------------------

thread_local! {
    pub static PANICS: RefCell<Vec<(String, String)>> = const { RefCell::new(Vec::new()) };
}

pub fn install_panic_hook() {
    static ONCE: std::sync::Once = std::sync::Once::new();
    ONCE.call_once(|| {
        std::panic::set_hook(Box::new(|info| {
            let loc = info
                .location()
                .map(|l| format!("{}:{}", l.file(), l.line()))
                .unwrap_or_else(|| "<unknown>".to_string());
            let msg = if let Some(s) = info.payload().downcast_ref::<&str>() {
                s.to_string()
            } else if let Some(s) = info.payload().downcast_ref::<String>() {
                s.clone()
            } else {
                "<non-string panic>".to_string()
            };
            if std::env::var("VERIF_SHOW_PANICS").is_ok() {
                eprintln!("panic at {loc}: {msg}");
                let bt = std::backtrace::Backtrace::force_capture().to_string();
                for line in bt.lines().filter(|l| l.contains("/repo/") || l.contains("tako::") || l.contains("hyperqueue::")).take(40) {
                    eprintln!("   {line}");
                }
            }
            PANICS.with(|p| p.borrow_mut().push((loc, msg)));
        }));
    });
}

pub struct SimRun {
    pub obs: Rc<RefCell<Obs>>,
    pub quiescent: bool,
    pub panics: Vec<(String, String)>,
    pub steps: u32,
}

#[derive(Debug, Clone, Copy, PartialEq, Eq)]
pub enum Mode {
    /// history, drain without and with capable workers, final monitors
    Normal,
    /// history, then the RESTORE phase (every journal prefix is restored and compared)
    Restore,
}

/// Execute one case completely (history + drain + final monitors).
pub fn execute(case: &SimCase) -> SimRun {
    execute_mode(case, Mode::Normal)
}

pub fn execute_mode(case: &SimCase, mode: Mode) -> SimRun {
    install_panic_hook();
    PANICS.with(|p| p.borrow_mut().clear());
    let obs_out: Rc<RefCell<Option<Rc<RefCell<Obs>>>>> = Rc::new(RefCell::new(None));
    let obs_out2 = obs_out.clone();
    let quiescent = Rc::new(RefCell::new(false));
    let quiescent2 = quiescent.clone();
    let steps = Rc::new(RefCell::new(0u32));
    let steps2 = steps.clone();
    let case2 = case.clone();
    let result = std::panic::catch_unwind(std::panic::AssertUnwindSafe(move || {
        let rt = tokio::runtime::Builder::new_current_thread()
            .enable_time()
            .start_paused(true)
            .build()
            .unwrap();
        let local = tokio::task::LocalSet::new();
        rt.block_on(local.run_until(async move {
            let mut sim = Sim::new(&case2);
            *obs_out2.borrow_mut() = Some(sim.obs.clone());
            sim.world.settle().await;
            for (i, (c, c2)) in case2.choices.iter().enumerate() {
                let step = i as u32 + 1;
                sim.world.set_step(step);
                *steps2.borrow_mut() = step;
                let Some(action) = sim.choose(*c, *c2) else {
                    continue;
                };
                sim.obs.borrow_mut().trace.push(format!("{action:?} (did not complete)"));
                let d = sim.apply(action).await;
                *sim.obs.borrow_mut().trace.last_mut().unwrap() = format!("{step}: {d}");
                sim.mon.after_step(&sim.world, &mut sim.obs.borrow_mut());
                let panicked = PANICS.with(|p| !p.borrow().is_empty());
                if panicked {
                    return;
                }
            }
            if mode == Mode::Restore {
                let seed = crate::common::hash_str(&sim.obs.borrow().trace.join("|"));
                crate::restore::restore_phase(&mut sim, seed).await;
                *steps2.borrow_mut() = sim.world.step_no();
                return;
            }
            let q1 = sim.drain(false).await;
            *quiescent2.borrow_mut() = q1;
            *steps2.borrow_mut() = sim.world.step_no();
            if PANICS.with(|p| !p.borrow().is_empty()) {
                return;
            }
            sim.mon.finish(&sim.world, &mut sim.obs.borrow_mut(), q1, false);
            if !q1 {
                return;
            }
            let q2 = sim.drain(true).await;
            *quiescent2.borrow_mut() = q2;
            *steps2.borrow_mut() = sim.world.step_no();
            if PANICS.with(|p| !p.borrow().is_empty()) {
                return;
            }
            sim.mon.finish(&sim.world, &mut sim.obs.borrow_mut(), q2, true);
        }));
    }));
    let _ = result;
    let panics = PANICS.with(|p| p.borrow().clone());
    let obs = obs_out
        .borrow_mut()
        .take()
        .unwrap_or_else(|| Rc::new(RefCell::new(Obs::default())));
    let q = *quiescent.borrow();
    let s = *steps.borrow();
    SimRun {
        obs,
        quiescent: q,
        panics,
        steps: s,
    }
}

pub fn case_strategy(
    profile: &'static str,
    max_len: usize,
    eager_ratio: u32,
) -> BoxedStrategy<SimCase> {
    let prefill = prop_oneof![
        3 => (0u32..3, 1u32..5).prop_map(Some),
        1 => Just(None),
    ];
    (
        prefill,
        0u32..100,
        proptest::collection::vec((any::<u16>(), any::<u32>()), 10..max_len),
    )
        .prop_map(move |(prefill, e, choices)| SimCase {
            profile: profile.to_string(),
            prefill,
            eager: e < eager_ratio,
            choices,
            genv: GEN_CURRENT,
        })
        .boxed()
}

pub fn harness_panic(panics: &[(String, String)]) -> Option<&(String, String)> {
    panics.iter().find(|(loc, _)| loc.contains("/verif/"))
}

/// Turn a finished run into an `Outcome` for property `prop`.
pub fn outcome_for(prop: &'static str, run: &SimRun) -> Outcome {
    let obs = run.obs.borrow();
    let mut out = Outcome::default();
    let trace_text = obs.trace.join("\n");
    out.trace_hash = hash_str(&trace_text);
    out.classes = obs.classes.iter().cloned().collect();
    let full = std::env::var("VERIF_FULL_TRACE").is_ok();
    let abbreviated: Vec<&String> = obs.trace.iter().take(if full { usize::MAX } else { 60 }).collect();
    out.summary = serde_json::json!({
        "steps": run.steps,
        "quiescent": run.quiescent,
        "classes": obs.classes,
        "trace_head": abbreviated,
        "trace_tail": if obs.trace.len() > 60 { obs.trace[obs.trace.len().saturating_sub(25).max(60)..].to_vec() } else { Vec::new() },
        "panics": run.panics,
        "alarms": obs.alarms.iter().map(|a| format!("{} @{}: {} -- {}", a.prop, a.step, a.signature, a.detail)).collect::<Vec<_>>(),
    });
    if let Some((loc, msg)) = harness_panic(&run.panics) {
        out.aborted = Some(format!("HARNESS PANIC at {loc}: {msg}"));
        return out;
    }
    let repo_panic = run.panics.first();
    if prop == "C09" {
        if let Some((loc, msg)) = repo_panic {
            let short_loc = loc.rsplit("/crates/").next().unwrap_or(loc);
            out.violation = Some(Violation {
                signature: format!("panic at {short_loc}"),
                detail: format!("panic at {loc}: {msg}"),
            });
        }
    } else if let Some((loc, msg)) = repo_panic {
        out.aborted = Some(format!("panic (C09) at {loc}: {msg}"));
    }
    if out.violation.is_none() {
        // prefer an alarm that is not a listed known finding, so that known findings do not
        // hide other violations in the same history
        static KNOWN: std::sync::OnceLock<Vec<crate::common::KnownFinding>> = std::sync::OnceLock::new();
        let known = KNOWN.get_or_init(crate::common::load_known_findings);
        let is_known = |sig: &str| {
            known
                .iter()
                .any(|k| k.property == prop && k.status == "open" && sig.contains(&k.signature))
        };
        let chosen = obs
            .alarms
            .iter()
            .find(|a| a.prop == prop && !is_known(&a.signature))
            .or_else(|| obs.alarms.iter().find(|a| a.prop == prop));
        if let Some(a) = chosen {
            out.violation = Some(Violation {
                signature: a.signature.clone(),
                detail: format!("step {}: {}", a.step, a.detail),
            });
        }
    }
    out
}
