//! Fake `TaskLauncher`: records every build call, the task body ends only when the harness says so.

use std::cell::RefCell;
use std::collections::BTreeMap;
use std::rc::Rc;

use tako::launcher::{StopReason, TaskBuildContext, TaskLaunchData, TaskLauncher, TaskResult};
use tako::verif::{AllocSnap, allocation_snap};
use tako::{InstanceId, TaskId, WorkerId};
use tokio::sync::oneshot;

#[derive(Debug, Clone, Copy, PartialEq, Eq)]
pub enum Resolution {
    Finish,
    Fail,
}

#[derive(Debug, Clone, Copy, PartialEq, Eq)]
pub enum EndKind {
    Finished,
    Failed,
    Canceled,
    Timeouted,
}

#[derive(Debug, Clone)]
pub enum LEvent {
    Build {
        exec: u32,
        worker: WorkerId,
        task: TaskId,
        instance: InstanceId,
        rv: u8,
        rq_id: u32,
        alloc: Vec<AllocSnap>,
        nodes: Vec<WorkerId>,
        ok: bool,
    },
    Stop {
        exec: u32,
        cancel: bool, // false = timeout
        worker_dead: bool,
    },
    End {
        exec: u32,
        kind: EndKind,
        worker_dead: bool,
    },
}

#[derive(Default)]
pub struct LaunchShared {
    pub step: u32,
    pub next_exec: u32,
    pub log: Vec<(u32, u64, LEvent)>,
    /// exec -> resolver
    pub live: BTreeMap<u32, LiveExec>,
    /// tasks whose launch fails (by task id), set by the harness before delivery
    pub fail_launch: std::collections::BTreeSet<TaskId>,
    /// every `slow_stop_mod`-th execution (offset `slow_stop_salt`) ends only when the harness
    /// says so after it was told to stop; 0 = every execution ends at once (old replay files)
    pub slow_stop_mod: u32,
    pub slow_stop_salt: u32,
    pub dead_workers: std::collections::BTreeSet<WorkerId>,
    /// resource environment variables that do not describe the held allocation (C04)
    pub env_problems: Vec<(TaskId, WorkerId, String)>,
}

pub struct LiveExec {
    pub worker: WorkerId,
    pub task: TaskId,
    pub instance: InstanceId,
    pub resolver: Option<oneshot::Sender<Resolution>>,
    pub alloc: Vec<AllocSnap>,
    pub rq_id: u32,
    pub rv: u8,
    pub nodes: Vec<WorkerId>,
    pub start_step: u32,
    /// tokio (paused) time at start, milliseconds since world start
    pub start_ms: u64,
    pub time_limit_ms: Option<u64>,
    /// the stop signal arrived, the body has not ended yet (a real process needs time to die;
    /// it holds its resources on the worker until then)
    pub stopping: bool,
}

pub type LaunchRef = Rc<RefCell<LaunchShared>>;

pub struct FakeLauncher {
    pub worker: WorkerId,
    pub shared: LaunchRef,
    pub origin: tokio::time::Instant,
    /// the resource descriptor the worker was started with (labels are derived from it here,
    /// independently of the worker's label map)
    pub desc: tako::resources::ResourceDescriptor,
}

/// The documented value of an index of a resource: the number itself for a range, the n-th
/// value for a list, the n-th value of the flattened groups for a grouped resource.
fn expected_label(desc: &tako::resources::ResourceDescriptor, name: &str, index: u32) -> Option<String> {
    use tako::resources::ResourceDescriptorKind as K;
    let item = desc.resources.iter().find(|i| i.name == name)?;
    match &item.kind {
        K::Range { .. } => Some(index.to_string()),
        K::List { values } => values.get(index as usize).map(|v| v.to_string()),
        K::Groups { groups } => groups
            .iter()
            .flatten()
            .nth(index as usize)
            .map(|v| v.to_string()),
        K::Sum { .. } => None,
    }
}

impl TaskLauncher for FakeLauncher {
    fn build_task(
        &self,
        ctx: TaskBuildContext,
        stop_receiver: oneshot::Receiver<StopReason>,
    ) -> tako::Result<TaskLaunchData> {
        let worker = self.worker;
        let task = ctx.task_id();
        let instance = ctx.instance_id();
        let alloc = allocation_snap(ctx.allocation());
        let nodes = ctx.node_list().to_vec();
        let rv = ctx.resource_variant().as_num();
        let rq_id = ctx.resource_rq_id().as_num();
        // what the task is told about its resources (C04)
        let env = hyperqueue::worker::start::verif_resources_env(&ctx);
        let (rmap, _) = ctx.get_resource_maps();
        let mut env_problem: Option<String> = None;
        if nodes.is_empty() {
            for ra in &ctx.allocation().resources {
                let name = rmap.get_name(ra.resource_id).unwrap_or("?").to_string();
                let var: String = format!(
                    "HQ_RESOURCE_VALUES_{}",
                    name.chars()
                        .map(|c| if c.is_ascii_alphanumeric() { c } else { '_' })
                        .collect::<String>()
                );
                let told = env.get(bstr::BStr::new(var.as_bytes())).map(|v| v.to_string());
                let labels: Vec<String> = ra
                    .indices
                    .iter()
                    .map(|i| {
                        expected_label(&self.desc, &name, i.index.as_num()).unwrap_or_else(|| {
                            ctx.get_resource_label_map()
                                .get_label(ra.resource_id, i.index)
                                .to_string()
                        })
                    })
                    .collect();
                if labels.is_empty() {
                    if told.is_some() {
                        env_problem = Some(format!("{var} set for a resource without indices"));
                    }
                    continue;
                }
                let mut told_set: Vec<String> = told
                    .clone()
                    .unwrap_or_default()
                    .split(',')
                    .map(|s| s.to_string())
                    .collect();
                let mut held = labels.clone();
                told_set.sort();
                held.sort();
                if told.is_none() || told_set != held {
                    env_problem = Some(format!(
                        "{var}={told:?} but the task holds the indices with labels {labels:?}"
                    ));
                }
                // a partially allocated index is always the last one
                if let (Some(t), Some(last)) = (&told, ra.indices.last()) {
                    if last.fractions != 0 {
                        let last_label = expected_label(&self.desc, &name, last.index.as_num())
                            .unwrap_or_else(|| {
                                ctx.get_resource_label_map()
                                    .get_label(ra.resource_id, last.index)
                                    .to_string()
                            });
                        if t.split(',').next_back() != Some(last_label.as_str()) {
                            env_problem = Some(format!(
                                "{var}={t}: the partially allocated index {last_label} is not the last value"
                            ));
                        }
                    }
                }
                if name == "cpus" {
                    let hq_cpus = env.get(bstr::BStr::new(b"HQ_CPUS")).map(|v| v.to_string());
                    if hq_cpus != told {
                        env_problem = Some(format!("HQ_CPUS={hq_cpus:?} differs from {var}={told:?}"));
                    }
                }
            }
        }
        let mut sh = self.shared.borrow_mut();
        if let Some(p) = env_problem {
            sh.env_problems.push((task, worker, p));
        }
        let exec = sh.next_exec;
        sh.next_exec += 1;
        let fail = sh.fail_launch.contains(&task);
        let step = sh.step;
        let now_ms = (tokio::time::Instant::now() - self.origin).as_millis() as u64;
        sh.log.push((
            step,
            now_ms,
            LEvent::Build {
                exec,
                worker,
                task,
                instance,
                rv,
                rq_id,
                alloc: alloc.clone(),
                nodes: nodes.clone(),
                ok: !fail,
            },
        ));
        if fail {
            return Err(tako::Error::GenericError(
                "launch failed (harness)".to_string(),
            ));
        }
        let (tx, rx) = oneshot::channel::<Resolution>();
        let start_ms = now_ms;
        sh.live.insert(
            exec,
            LiveExec {
                worker,
                task,
                instance,
                resolver: Some(tx),
                alloc,
                rq_id,
                rv,
                nodes,
                start_step: step,
                start_ms,
                time_limit_ms: None,
                stopping: false,
            },
        );
        let slow_stop = sh.slow_stop_mod > 0 && (exec + sh.slow_stop_salt) % sh.slow_stop_mod == 0;
        drop(sh);
        let shared = self.shared.clone();
        let origin = self.origin;
        let fut = async move {
            let mut rx = rx;
            let mut stop_receiver = stop_receiver;
            let result: tako::Result<TaskResult>;
            let kind;
            tokio::select! {
                biased;
                r = &mut rx => {
                    match r {
                        Ok(Resolution::Finish) => { result = Ok(TaskResult::Finished); kind = EndKind::Finished; }
                        Ok(Resolution::Fail) => { result = Err(tako::Error::GenericError("task failed (harness)".to_string())); kind = EndKind::Failed; }
                        Err(_) => { result = Ok(TaskResult::Canceled); kind = EndKind::Canceled; }
                    }
                }
                s = &mut stop_receiver => {
                    let mut sh = shared.borrow_mut();
                    let step = sh.step;
                    let ms = (tokio::time::Instant::now() - origin).as_millis() as u64;
                    let dead = sh.dead_workers.contains(&worker);
                    let mut wait_for_end = false;
                    match s {
                        Ok(StopReason::Cancel) => {
                            sh.log.push((step, ms, LEvent::Stop { exec, cancel: true, worker_dead: dead }));
                            result = Ok(TaskResult::Canceled); kind = EndKind::Canceled;
                            wait_for_end = slow_stop;
                        }
                        Ok(StopReason::Timeout) => {
                            sh.log.push((step, ms, LEvent::Stop { exec, cancel: false, worker_dead: dead }));
                            result = Ok(TaskResult::Timeouted); kind = EndKind::Timeouted;
                            wait_for_end = slow_stop;
                        }
                        Err(_) => {
                            // the running task object was dropped without a signal
                            result = Ok(TaskResult::Canceled); kind = EndKind::Canceled;
                        }
                    }
                    if wait_for_end && !dead {
                        // the process takes its time to die: the execution stays live (and keeps
                        // its resources) until the harness ends it
                        if let Some(e) = sh.live.get_mut(&exec) {
                            e.stopping = true;
                        }
                        drop(sh);
                        let _ = (&mut rx).await;
                    }
                }
            }
            let mut sh = shared.borrow_mut();
            let step = sh.step;
            let dead = sh.dead_workers.contains(&worker);
            sh.live.remove(&exec);
            let ms = (tokio::time::Instant::now() - origin).as_millis() as u64;
            sh.log.push((step, ms, LEvent::End { exec, kind, worker_dead: dead }));
            result
        };
        // The real launcher returns a serialized RunningTaskContext { instance_id }
        let context = tako::comm::serialize(&hyperqueue::worker::start::RunningTaskContext {
            instance_id: instance,
        })?;
        Ok(TaskLaunchData::new(Box::pin(fut), context))
    }
}
