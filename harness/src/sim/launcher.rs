//! Fake `TaskLauncher`: records every build call, the task body ends only when the harness says so.

use std::cell::RefCell;
use std::collections::BTreeMap;
use std::rc::Rc;

use tako::launcher::{StopReason, TaskBuildContext, TaskLaunchData, TaskLauncher, TaskResult};
use tako::verif::{AllocSnap, allocation_snap};
use tako::{InstanceId, TaskId, WorkerId};
use tokio::sync::oneshot;

#[derive(Debug, Clone, Copy, PartialEq, Eq)]
pub enum Resolution {
    Finish,
    Fail,
}

#[derive(Debug, Clone, Copy, PartialEq, Eq)]
pub enum EndKind {
    Finished,
    Failed,
    Canceled,
    Timeouted,
}

#[derive(Debug, Clone)]
pub enum LEvent {
    Build {
        exec: u32,
        worker: WorkerId,
        task: TaskId,
        instance: InstanceId,
        rv: u8,
        rq_id: u32,
        alloc: Vec<AllocSnap>,
        nodes: Vec<WorkerId>,
        ok: bool,
    },
    Stop {
        exec: u32,
        cancel: bool, // false = timeout
        worker_dead: bool,
    },
    End {
        exec: u32,
        kind: EndKind,
        worker_dead: bool,
    },
}

#[derive(Default)]
pub struct LaunchShared {
    pub step: u32,
    pub next_exec: u32,
    pub log: Vec<(u32, u64, LEvent)>,
    /// exec -> resolver
    pub live: BTreeMap<u32, LiveExec>,
    /// tasks whose launch fails (by task id), set by the harness before delivery
    pub fail_launch: std::collections::BTreeSet<TaskId>,
    pub dead_workers: std::collections::BTreeSet<WorkerId>,
}

pub struct LiveExec {
    pub worker: WorkerId,
    pub task: TaskId,
    pub instance: InstanceId,
    pub resolver: Option<oneshot::Sender<Resolution>>,
    pub alloc: Vec<AllocSnap>,
    pub rq_id: u32,
    pub rv: u8,
    pub nodes: Vec<WorkerId>,
    pub start_step: u32,
    /// tokio (paused) time at start, milliseconds since world start
    pub start_ms: u64,
    pub time_limit_ms: Option<u64>,
}

pub type LaunchRef = Rc<RefCell<LaunchShared>>;

pub struct FakeLauncher {
    pub worker: WorkerId,
    pub shared: LaunchRef,
    pub origin: tokio::time::Instant,
}

impl TaskLauncher for FakeLauncher {
    fn build_task(
        &self,
        ctx: TaskBuildContext,
        stop_receiver: oneshot::Receiver<StopReason>,
    ) -> tako::Result<TaskLaunchData> {
        let worker = self.worker;
        let task = ctx.task_id();
        let instance = ctx.instance_id();
        let alloc = allocation_snap(ctx.allocation());
        let nodes = ctx.node_list().to_vec();
        let rv = ctx.resource_variant().as_num();
        let rq_id = ctx.resource_rq_id().as_num();
        let mut sh = self.shared.borrow_mut();
        let exec = sh.next_exec;
        sh.next_exec += 1;
        let fail = sh.fail_launch.contains(&task);
        let step = sh.step;
        let now_ms = (tokio::time::Instant::now() - self.origin).as_millis() as u64;
        sh.log.push((
            step,
            now_ms,
            LEvent::Build {
                exec,
                worker,
                task,
                instance,
                rv,
                rq_id,
                alloc: alloc.clone(),
                nodes: nodes.clone(),
                ok: !fail,
            },
        ));
        if fail {
            return Err(tako::Error::GenericError(
                "launch failed (harness)".to_string(),
            ));
        }
        let (tx, rx) = oneshot::channel::<Resolution>();
        let start_ms = now_ms;
        sh.live.insert(
            exec,
            LiveExec {
                worker,
                task,
                instance,
                resolver: Some(tx),
                alloc,
                rq_id,
                rv,
                nodes,
                start_step: step,
                start_ms,
                time_limit_ms: None,
            },
        );
        drop(sh);
        let shared = self.shared.clone();
        let origin = self.origin;
        let fut = async move {
            let mut rx = rx;
            let mut stop_receiver = stop_receiver;
            let result: tako::Result<TaskResult>;
            let kind;
            tokio::select! {
                biased;
                r = &mut rx => {
                    match r {
                        Ok(Resolution::Finish) => { result = Ok(TaskResult::Finished); kind = EndKind::Finished; }
                        Ok(Resolution::Fail) => { result = Err(tako::Error::GenericError("task failed (harness)".to_string())); kind = EndKind::Failed; }
                        Err(_) => { result = Ok(TaskResult::Canceled); kind = EndKind::Canceled; }
                    }
                }
                s = &mut stop_receiver => {
                    let mut sh = shared.borrow_mut();
                    let step = sh.step;
                    let ms = (tokio::time::Instant::now() - origin).as_millis() as u64;
                    let dead = sh.dead_workers.contains(&worker);
                    match s {
                        Ok(StopReason::Cancel) => {
                            sh.log.push((step, ms, LEvent::Stop { exec, cancel: true, worker_dead: dead }));
                            result = Ok(TaskResult::Canceled); kind = EndKind::Canceled;
                        }
                        Ok(StopReason::Timeout) => {
                            sh.log.push((step, ms, LEvent::Stop { exec, cancel: false, worker_dead: dead }));
                            result = Ok(TaskResult::Timeouted); kind = EndKind::Timeouted;
                        }
                        Err(_) => {
                            // the running task object was dropped without a signal
                            result = Ok(TaskResult::Canceled); kind = EndKind::Canceled;
                        }
                    }
                }
            }
            let mut sh = shared.borrow_mut();
            let step = sh.step;
            let dead = sh.dead_workers.contains(&worker);
            sh.live.remove(&exec);
            let ms = (tokio::time::Instant::now() - origin).as_millis() as u64;
            sh.log.push((step, ms, LEvent::End { exec, kind, worker_dead: dead }));
            result
        };
        // The real launcher returns a serialized RunningTaskContext { instance_id }
        let context = tako::comm::serialize(&hyperqueue::worker::start::RunningTaskContext {
            instance_id: instance,
        })?;
        Ok(TaskLaunchData::new(Box::pin(fut), context))
    }
}
