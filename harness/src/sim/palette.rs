//! Fixed palettes of worker configurations, resource requests and task parameters.

use std::time::Duration;

use hyperqueue::common::arraydef::{IntArray, IntRange};
use hyperqueue::transfer::messages::{
    JobDescription, JobSubmitDescription, JobTaskDescription, PinMode, SubmitRequest,
    TaskDescription, TaskKind, TaskKindProgram, TaskWithDependencies,
};
use smallvec::smallvec;
use tako::gateway::{
    CrashLimit, ResourceRequest, ResourceRequestEntry, ResourceRequestVariants,
};
use tako::program::{ProgramDefinition, StdioDef};
use tako::resources::{
    AllocationRequest, ResourceAmount, ResourceDescriptor, ResourceDescriptorItem,
    ResourceDescriptorKind,
};
use tako::worker::{ServerLostPolicy, WorkerConfiguration};
use tako::{JobId, JobTaskId, Map};

pub const N_WORKER_PALETTE: usize = 10;

fn cpus_range(n: u32) -> ResourceDescriptorItem {
    ResourceDescriptorItem::range("cpus", 0, n - 1)
}

fn cpus_groups(groups: u32, per: u32) -> ResourceDescriptorItem {
    ResourceDescriptorItem {
        name: "cpus".to_string(),
        kind: ResourceDescriptorKind::regular_sockets(groups, per),
    }
}

fn gpus(n: u32) -> ResourceDescriptorItem {
    ResourceDescriptorItem {
        name: "gpus".to_string(),
        kind: ResourceDescriptorKind::list((0..n).map(|i| format!("g{i}")).collect()).unwrap(),
    }
}

/// Workers 10.. exist only for generator version >= 1: ranges that do not start at 0 and a
/// list with numeric labels that are not their positions.
pub const N_WORKER_PALETTE_V1: usize = 13;

pub fn worker_descriptor(p: usize) -> (ResourceDescriptor, &'static str, Option<Duration>) {
    match p {
        10 => {
            return (
                ResourceDescriptor::new(
                    vec![cpus_range(4), ResourceDescriptorItem::range("gpus", 1, 4)],
                    Default::default(),
                ),
                "a",
                None,
            );
        }
        11 => {
            return (
                ResourceDescriptor::new(
                    vec![ResourceDescriptorItem::range("cpus", 2, 5)],
                    Default::default(),
                ),
                "a",
                None,
            );
        }
        12 => {
            return (
                ResourceDescriptor::new(
                    vec![
                        cpus_range(4),
                        ResourceDescriptorItem {
                            name: "gpus".to_string(),
                            kind: ResourceDescriptorKind::list(vec![
                                "2".to_string(),
                                "3".to_string(),
                                "5".to_string(),
                            ])
                            .unwrap(),
                        },
                    ],
                    Default::default(),
                ),
                "b",
                None,
            );
        }
        _ => {}
    }
    let (items, group, limit) = match p % N_WORKER_PALETTE {
        0 => (vec![cpus_range(4)], "a", None),
        1 => (vec![cpus_range(2)], "a", None),
        2 => (vec![cpus_groups(2, 4), gpus(2)], "a", None),
        3 => (vec![cpus_range(1)], "a", None),
        4 => (
            vec![cpus_range(4), ResourceDescriptorItem::sum("mem", 10)],
            "a",
            None,
        ),
        5 => (vec![cpus_range(4)], "b", None),
        6 => (vec![cpus_range(2)], "b", Some(Duration::from_secs(1000))),
        7 => (vec![cpus_range(4)], "a", Some(Duration::from_secs(2000))),
        8 => (vec![cpus_groups(3, 2), gpus(1)], "b", None),
        _ => (vec![cpus_range(8)], "a", None),
    };
    (
        ResourceDescriptor::new(items, Default::default()),
        group,
        limit,
    )
}

/// A worker that can run every request of the palette (used by the drain)
pub fn capable_worker_descriptor() -> ResourceDescriptor {
    ResourceDescriptor::new(
        vec![
            cpus_groups(2, 4),
            gpus(2),
            ResourceDescriptorItem::sum("mem", 10),
        ],
        Default::default(),
    )
}

pub fn worker_configuration(
    desc: ResourceDescriptor,
    group: &str,
    time_limit: Option<Duration>,
    n: usize,
) -> WorkerConfiguration {
    WorkerConfiguration {
        resources: desc,
        listen_address: format!("host{n}:1"),
        hostname: format!("host{n}"),
        group: group.to_string(),
        work_dir: "/tmp/hq-verif-work".into(),
        heartbeat_interval: Duration::from_secs(8),
        overview_configuration: Default::default(),
        idle_timeout: None,
        time_limit,
        retract_check_interval: Duration::from_secs(10),
        on_server_lost: ServerLostPolicy::Stop,
        min_utilization: 0.0,
        extra: Map::default(),
    }
}

/// Parameters of an allocation queue (only recorded in the journal; no allocation is submitted).
pub fn queue_parameters(arg: u32) -> hyperqueue::server::autoalloc::QueueParameters {
    use crate::common::sub;
    use hyperqueue::common::manager::info::ManagerType;
    hyperqueue::server::autoalloc::QueueParameters {
        manager: if sub(arg, 160, 2) == 0 { ManagerType::Slurm } else { ManagerType::Pbs },
        max_workers_per_alloc: 1 + sub(arg, 161, 3) as u32,
        backlog: 1 + sub(arg, 162, 4) as u32,
        timelimit: Duration::from_secs(600 * (1 + sub(arg, 163, 3) as u64)),
        name: if sub(arg, 164, 2) == 0 { Some(format!("q{}", sub(arg, 165, 100))) } else { None },
        max_worker_count: if sub(arg, 166, 2) == 0 { Some(2 + sub(arg, 167, 4) as u32) } else { None },
        min_utilization: 0.0,
        additional_args: if sub(arg, 168, 2) == 0 { vec!["--partition=p1".to_string()] } else { Vec::new() },
        worker_start_cmd: None,
        worker_stop_cmd: None,
        worker_wrap_cmd: None,
        cli_resource_descriptor: if sub(arg, 169, 3) == 0 {
            Some(worker_descriptor(sub(arg, 170, N_WORKER_PALETTE)).0)
        } else {
            None
        },
        worker_args: Vec::new(),
        idle_timeout: None,
    }
}

pub const N_RQ_PALETTE: usize = 14;
/// Requests 14.. exist only for generator version >= 1 (see `request`)
pub const N_RQ_PALETTE_V1: usize = 17;

fn entry(name: &str, policy: AllocationRequest) -> ResourceRequestEntry {
    ResourceRequestEntry {
        resource: name.to_string(),
        policy,
    }
}

fn units(n: u32) -> ResourceAmount {
    ResourceAmount::new_units(n)
}

fn rq(entries: Vec<ResourceRequestEntry>) -> ResourceRequest {
    ResourceRequest {
        n_nodes: 0,
        resources: entries.into_iter().collect(),
        min_time: Duration::ZERO,
        weight: Default::default(),
    }
}

pub fn request(p: usize) -> ResourceRequestVariants {
    use AllocationRequest::*;
    let v = |r: ResourceRequest| ResourceRequestVariants::new(smallvec![r]);
    match p {
        // variants that every worker can run and that differ only in the amount
        14 => {
            return ResourceRequestVariants::new(smallvec![
                rq(vec![entry("cpus", Compact(units(2)))]),
                rq(vec![entry("cpus", Compact(units(1)))]),
            ]);
        }
        15 => {
            return ResourceRequestVariants::new(smallvec![
                rq(vec![
                    entry("cpus", Compact(units(1))),
                    entry("gpus", Compact(units(1)))
                ]),
                rq(vec![entry("cpus", Compact(units(2)))]),
            ]);
        }
        16 => {
            return ResourceRequestVariants::new(smallvec![
                rq(vec![entry("cpus", Compact(ResourceAmount::new(0, 5000)))]),
                rq(vec![entry("cpus", Compact(units(1)))]),
                rq(vec![entry("cpus", Compact(units(3)))]),
            ]);
        }
        _ => {}
    }
    match p % N_RQ_PALETTE {
        0 => v(rq(vec![entry("cpus", Compact(units(1)))])),
        1 => v(rq(vec![entry("cpus", Compact(units(2)))])),
        2 => v(rq(vec![entry("cpus", Compact(units(4)))])),
        3 => v(rq(vec![entry("cpus", Compact(ResourceAmount::new(0, 5000)))])),
        4 => v(rq(vec![
            entry("cpus", Compact(units(1))),
            entry("gpus", Compact(units(1))),
        ])),
        5 => v(rq(vec![entry("cpus", All)])),
        6 => v(rq(vec![
            entry("cpus", Compact(units(1))),
            entry("mem", Compact(ResourceAmount::new(2, 5000))),
        ])),
        7 => ResourceRequestVariants::new(smallvec![
            rq(vec![entry("cpus", Compact(units(4)))]),
            rq(vec![
                entry("cpus", Compact(units(1))),
                entry("gpus", Compact(units(1)))
            ]),
        ]),
        8 => v(ResourceRequest {
            n_nodes: 2,
            resources: Default::default(),
            min_time: Duration::ZERO,
            weight: Default::default(),
        }),
        9 => v(ResourceRequest {
            n_nodes: 3,
            resources: Default::default(),
            min_time: Duration::ZERO,
            weight: Default::default(),
        }),
        10 => v(ResourceRequest {
            n_nodes: 0,
            resources: smallvec![entry("cpus", Compact(units(1)))],
            min_time: Duration::from_secs(300),
            weight: Default::default(),
        }),
        11 => v(rq(vec![entry("cpus", Scatter(units(2)))])),
        12 => v(rq(vec![entry("cpus", ForceCompact(units(3)))])),
        _ => v(rq(vec![entry("cpus", Compact(ResourceAmount::new(1, 5000)))])),
    }
}

pub const PRIORITIES: [i32; 5] = [0, 0, 1, -2, 5];

pub fn crash_limit(k: usize) -> CrashLimit {
    match k % 6 {
        0 => CrashLimit::default(),
        1 => CrashLimit::NeverRestart,
        2 => CrashLimit::MaxCrashes(1),
        3 => CrashLimit::MaxCrashes(2),
        4 => CrashLimit::Unlimited,
        _ => CrashLimit::MaxCrashes(3),
    }
}

pub fn task_description(
    priority: i32,
    crash: CrashLimit,
    time_limit: Option<Duration>,
) -> TaskDescription {
    TaskDescription {
        kind: TaskKind::ExternalProgram(TaskKindProgram {
            program: ProgramDefinition {
                args: vec!["true".into()],
                env: Map::default(),
                stdout: StdioDef::Null,
                stderr: StdioDef::Null,
                stdin: Vec::new(),
                cwd: "/tmp".into(),
            },
            pin_mode: PinMode::None,
            task_dir: false,
        }),
        time_limit,
        priority: priority.into(),
        crash_limit: crash,
    }
}

pub fn int_array(ids: &[u32]) -> IntArray {
    let mut sorted = ids.to_vec();
    sorted.sort_unstable();
    sorted.dedup();
    IntArray::from_sorted_ids(sorted.into_iter())
}

pub fn stepped_range(start: u32, count: u32, step: u32) -> IntArray {
    IntArray::new(vec![IntRange::new(start, count, step)])
}

#[allow(clippy::too_many_arguments)]
pub fn array_submit(
    job_id: Option<JobId>,
    ids: IntArray,
    entries: Option<Vec<tako::gateway::EntryType>>,
    rqv: ResourceRequestVariants,
    desc: TaskDescription,
    max_fails: Option<u32>,
    name: &str,
) -> SubmitRequest {
    SubmitRequest {
        job_desc: JobDescription {
            name: name.to_string(),
            max_fails,
        },
        submit_desc: JobSubmitDescription {
            task_desc: JobTaskDescription::Array {
                ids,
                entries,
                resource_rq: rqv,
                task_desc: desc,
            },
            submit_dir: "/tmp".into(),
            stream_path: None,
        },
        job_id,
    }
}

pub fn graph_submit(
    job_id: Option<JobId>,
    rqs: Vec<ResourceRequestVariants>,
    tasks: Vec<(u32, u32, TaskDescription, Vec<u32>)>,
    max_fails: Option<u32>,
    name: &str,
) -> SubmitRequest {
    SubmitRequest {
        job_desc: JobDescription {
            name: name.to_string(),
            max_fails,
        },
        submit_desc: JobSubmitDescription {
            task_desc: JobTaskDescription::Graph {
                resource_rqs: rqs,
                tasks: tasks
                    .into_iter()
                    .map(|(id, rq, desc, deps)| TaskWithDependencies {
                        id: JobTaskId::new(id),
                        resource_rq_id: rq.into(),
                        task_desc: desc,
                        task_deps: deps.into_iter().map(JobTaskId::new).collect(),
                    })
                    .collect(),
            },
            submit_dir: "/tmp".into(),
            stream_path: None,
        },
        job_id,
    }
}
