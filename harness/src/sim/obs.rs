//! Observation streams collected during one simulated history.

use std::collections::BTreeSet;

use hyperqueue::server::event::Event;
use tako::gateway::LostWorkerReason;
use tako::internal::messages::worker::{
    FromWorkerMessage, ToWorkerMessage, WorkerStopReason, WorkerTaskUpdate,
};
use tako::{TaskId, WorkerId};

#[derive(Debug, Clone)]
pub struct ComputeItem {
    pub task: TaskId,
    pub instance: u32,
    pub variant: Option<u8>,
    pub rq_id: u32,
    pub nodes: Vec<WorkerId>,
    pub priority: u64,
}

#[derive(Debug, Clone)]
pub enum ToW {
    Compute(Vec<ComputeItem>),
    Retract(Vec<TaskId>),
    Cancel(Vec<TaskId>),
    NewWorker(WorkerId),
    LostWorker(WorkerId),
    NewRq(u32),
    Stop,
    Other,
}

#[derive(Debug, Clone)]
pub enum Upd {
    Finished(TaskId),
    Failed(TaskId, String),
    Running(TaskId, u8),
    RunningPrefilled(TaskId, u8),
    Reject(TaskId, Option<u8>),
    Enable(u32, u8),
}

#[derive(Debug, Clone)]
pub enum FromW {
    Update(Vec<Upd>),
    RetractResponse(Vec<TaskId>),
    Stop(String),
    Other,
}

pub fn summarize_to_worker(m: &ToWorkerMessage) -> ToW {
    match m {
        ToWorkerMessage::ComputeTasks(msg) => ToW::Compute(
            msg.tasks
                .iter()
                .map(|t| ComputeItem {
                    task: t.id,
                    instance: t.instance_id.as_num(),
                    variant: t.resource_rq_variant.map(|v| v.as_num()),
                    rq_id: t.resource_rq_id.as_num(),
                    nodes: t.node_list.clone(),
                    priority: serde_json::to_value(t.priority)
                        .ok()
                        .and_then(|v| v.as_u64())
                        .unwrap_or(0),
                })
                .collect(),
        ),
        ToWorkerMessage::RetractTasks(m) => ToW::Retract(m.ids.clone()),
        ToWorkerMessage::CancelTasks(m) => ToW::Cancel(m.ids.clone()),
        ToWorkerMessage::NewWorker(m) => ToW::NewWorker(m.worker_id),
        ToWorkerMessage::LostWorker(w) => ToW::LostWorker(*w),
        ToWorkerMessage::NewResourceRequest(id, _) => ToW::NewRq(id.as_num()),
        ToWorkerMessage::Stop => ToW::Stop,
        ToWorkerMessage::SetOverviewIntervalOverride(_) => ToW::Other,
    }
}

pub fn summarize_from_worker(m: &FromWorkerMessage) -> FromW {
    match m {
        FromWorkerMessage::TaskUpdate(ups) => FromW::Update(
            ups.iter()
                .map(|u| match u {
                    WorkerTaskUpdate::Finished { task_id } => Upd::Finished(*task_id),
                    WorkerTaskUpdate::Failed { task_id, info } => {
                        Upd::Failed(*task_id, info.message.clone())
                    }
                    WorkerTaskUpdate::Running(m) => Upd::Running(m.task_id, m.rv_id.as_num()),
                    WorkerTaskUpdate::RunningPrefilled(m) => {
                        Upd::RunningPrefilled(m.task_id, m.rv_id.as_num())
                    }
                    WorkerTaskUpdate::RejectRequest { task_id, rv_id } => {
                        Upd::Reject(*task_id, rv_id.map(|v| v.as_num()))
                    }
                    WorkerTaskUpdate::EnableRequest {
                        resource_rq_id,
                        rv_id,
                    } => Upd::Enable(resource_rq_id.as_num(), rv_id.as_num()),
                })
                .collect(),
        ),
        FromWorkerMessage::RetractResponse(m) => FromW::RetractResponse(m.retracted.clone()),
        FromWorkerMessage::Stop(r) => FromW::Stop(
            match r {
                WorkerStopReason::IdleTimeout => "idle",
                WorkerStopReason::TimeLimitReached => "timelimit",
                WorkerStopReason::Interrupted => "interrupted",
            }
            .to_string(),
        ),
        _ => FromW::Other,
    }
}

#[derive(Debug, Clone)]
pub struct MsgObs<T> {
    pub step: u32,
    pub worker: WorkerId,
    pub body: T,
    /// false if the receiving process was already gone
    pub processed: bool,
    /// length of the launcher log when the message was handed over (what the launcher logged
    /// before that position happened before the message; 0 where it does not matter)
    pub log_pos: usize,
}

#[derive(Debug, Clone)]
pub struct LossObs {
    pub step: u32,
    pub worker: WorkerId,
    pub reason: LostWorkerReason,
}

#[derive(Debug, Clone)]
pub struct Alarm {
    pub prop: &'static str,
    pub signature: String,
    pub detail: String,
    pub step: u32,
}

#[derive(Default)]
pub struct EpochObs {
    /// what the journal prefix contained when this epoch booted (empty for the first)
    pub base: Vec<Event>,
    pub events: Vec<(u32, Event)>,
    pub start_step: u32,
}

#[derive(Default)]
pub struct Obs {
    pub trace: Vec<String>,
    pub epochs: Vec<EpochObs>,
    /// server -> worker messages in delivery order
    pub to_worker: Vec<MsgObs<ToW>>,
    /// server -> worker messages at the moment they were produced
    pub to_worker_sent: Vec<MsgObs<ToW>>,
    /// worker -> server messages in delivery order
    pub to_server: Vec<MsgObs<FromW>>,
    pub to_server_sent: Vec<MsgObs<FromW>>,
    pub losses: Vec<LossObs>,
    pub alarms: Vec<Alarm>,
    pub classes: BTreeSet<String>,
    pub restarts: u32,
}

impl Obs {
    pub fn alarm(&mut self, prop: &'static str, step: u32, signature: &str, detail: String) {
        // keep the first alarm per (property, signature)
        if self
            .alarms
            .iter()
            .any(|a| a.prop == prop && a.signature == signature)
        {
            return;
        }
        self.alarms.push(Alarm {
            prop,
            signature: signature.to_string(),
            detail,
            step,
        });
    }
    pub fn class(&mut self, c: &str) {
        if !self.classes.contains(c) {
            self.classes.insert(c.to_string());
        }
    }
}
