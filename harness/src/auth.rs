//! Engine AUTH (C20): real `do_authentication` endpoints over in-memory duplex streams with a
//! generated man-in-the-middle; provenance-based reference model of acceptance.

use std::sync::Arc;
use std::time::Duration;

use bytes::Bytes;
use futures::{SinkExt, StreamExt};
use std::cell::RefCell;
use std::rc::Rc;
use orion::kdf::SecretKey;
use proptest::prelude::*;
use serde::{Deserialize, Serialize};
use tokio::io::DuplexStream;
use tokio_util::codec::{Framed, LengthDelimitedCodec};

use crate::common::{Engine, Outcome, Tier, Violation, hash_str};

const ROLES: [&str; 7] = [
    "server",
    "worker",
    "hq-server",
    "hq-client",
    "a",
    "ab",
    "b",
];

// Mirror of the public bincode layout of the handshake messages
#[derive(Serialize, Deserialize, Debug, Clone, PartialEq)]
struct MChallenge {
    #[serde(with = "serde_bytes")]
    challenge: Vec<u8>,
}
#[derive(Serialize, Deserialize, Debug, Clone, PartialEq)]
enum MMode {
    NoAuth,
    Encryption(MChallenge),
}
#[derive(Serialize, Deserialize, Debug, Clone, PartialEq)]
struct MRequest {
    protocol: u32,
    role: String,
    mode: MMode,
}
#[derive(Serialize, Deserialize, Debug, Clone, PartialEq)]
struct MEncResponse {
    #[serde(with = "serde_bytes")]
    response: Vec<u8>,
    #[serde(with = "serde_bytes")]
    nonce: Vec<u8>,
}
#[derive(Serialize, Deserialize, Debug, Clone, PartialEq)]
struct MError {
    message: String,
}
#[derive(Serialize, Deserialize, Debug, Clone, PartialEq)]
enum MResponse {
    NoAuth,
    Encryption(MEncResponse),
    Error(MError),
}

#[derive(Serialize, Deserialize, Debug, Clone, Copy, PartialEq)]
pub struct EndpointCfg {
    pub protocol: u32,
    pub my_role: u8,
    pub peer_role: u8,
    /// 0 = no key, 1 = K1, 2 = K2
    pub key: u8,
}

#[derive(Serialize, Deserialize, Debug, Clone, PartialEq)]
pub enum Source {
    /// the message the real peer sent in this slot
    Forward,
    Drop,
    /// the endpoint's own message of the same slot
    Reflect,
    /// the message its peer sent in this slot in an earlier (clean) session
    ReplayOld,
    /// the message the third endpoint sent in this slot
    FromThird,
}

#[derive(Serialize, Deserialize, Debug, Clone, PartialEq)]
pub enum Edit {
    None,
    Role(u8),
    Protocol(u32),
    ToNoAuth,
    /// replace the challenge by given bytes length
    ChallengeLen(u8),
    /// prepend bytes to the challenge (role-prefix confusion)
    ChallengePrefix(u8),
    /// put another endpoint's challenge into the request (0 = A, 1 = B, 2 = C)
    ChallengeOf(u8),
    FlipNonce(u8),
    FlipCipher(u8),
    ResponseToNoAuth,
    ResponseToError,
    Truncate(u8),
    Append(u8),
    Random(u8),
}

#[derive(Serialize, Deserialize, Debug, Clone, PartialEq)]
pub struct Delivery {
    pub source: Source,
    pub edit: Edit,
}

#[derive(Serialize, Deserialize, Debug, Clone)]
pub struct AuthCase {
    /// A, B (session under test), C (third endpoint the adversary also talks to)
    pub cfg: [EndpointCfg; 3],
    /// request-slot deliveries for A, B, C, then response-slot deliveries for A, B, C
    pub deliveries: [Delivery; 6],
}

fn cfg_strategy() -> BoxedStrategy<EndpointCfg> {
    (
        prop_oneof![9 => Just(0u32), 1 => Just(1u32)],
        0u8..ROLES.len() as u8,
        0u8..ROLES.len() as u8,
        prop_oneof![2 => Just(0u8), 5 => Just(1u8), 2 => Just(2u8)],
    )
        .prop_map(|(protocol, my_role, peer_role, key)| {
            // callers always use two different role names
            let peer_role = if peer_role == my_role {
                (peer_role + 1) % ROLES.len() as u8
            } else {
                peer_role
            };
            EndpointCfg {
                protocol,
                my_role,
                peer_role,
                key,
            }
        })
        .boxed()
}

fn edit_strategy() -> BoxedStrategy<Edit> {
    prop_oneof![
        12 => Just(Edit::None),
        2 => (0u8..ROLES.len() as u8).prop_map(Edit::Role),
        1 => (0u32..3).prop_map(Edit::Protocol),
        1 => Just(Edit::ToNoAuth),
        1 => prop_oneof![Just(0u8), Just(15), Just(16), Just(17), Just(32)].prop_map(Edit::ChallengeLen),
        2 => (0u8..ROLES.len() as u8).prop_map(Edit::ChallengePrefix),
        2 => (0u8..3).prop_map(Edit::ChallengeOf),
        1 => any::<u8>().prop_map(Edit::FlipNonce),
        1 => any::<u8>().prop_map(Edit::FlipCipher),
        1 => Just(Edit::ResponseToNoAuth),
        1 => Just(Edit::ResponseToError),
        1 => (1u8..20).prop_map(Edit::Truncate),
        1 => (1u8..5).prop_map(Edit::Append),
        1 => any::<u8>().prop_map(Edit::Random),
    ]
    .boxed()
}

fn delivery_strategy() -> BoxedStrategy<Delivery> {
    (
        prop_oneof![
            10 => Just(Source::Forward),
            1 => Just(Source::Drop),
            2 => Just(Source::Reflect),
            2 => Just(Source::ReplayOld),
            3 => Just(Source::FromThird),
        ],
        edit_strategy(),
    )
        .prop_map(|(source, edit)| Delivery { source, edit })
        .boxed()
}

pub fn case_strategy() -> BoxedStrategy<AuthCase> {
    // Half of the cases start from a matching configuration (A and B complementary, same key),
    // so that the interesting part of the space (single substitutions) is dense.
    let matching = (cfg_strategy(), cfg_strategy()).prop_map(|(a, c)| {
        let b = EndpointCfg {
            protocol: a.protocol,
            my_role: a.peer_role,
            peer_role: a.my_role,
            key: a.key,
        };
        [a, b, c]
    });
    let c_like_b = cfg_strategy().prop_map(|a| {
        let b = EndpointCfg {
            protocol: a.protocol,
            my_role: a.peer_role,
            peer_role: a.my_role,
            key: a.key,
        };
        [a, b, b]
    });
    let any3 = (cfg_strategy(), cfg_strategy(), cfg_strategy()).prop_map(|(a, b, c)| [a, b, c]);
    // Mostly single disturbances (the statement quantifies over single-message substitutions),
    // some clean sessions, some double and a few heavily disturbed ones.
    let clean = Delivery {
        source: Source::Forward,
        edit: Edit::None,
    };
    let disturbed = (
        prop_oneof![
            4 => Just(Source::Forward),
            1 => Just(Source::Drop),
            2 => Just(Source::Reflect),
            2 => Just(Source::ReplayOld),
            3 => Just(Source::FromThird),
        ],
        edit_strategy(),
    )
        .prop_map(|(source, edit)| Delivery { source, edit });
    let c0 = clean.clone();
    let deliveries = prop_oneof![
        1 => Just(vec![clean.clone(); 6]),
        6 => (0usize..6, disturbed.clone()).prop_map({
            let c = c0.clone();
            move |(i, d)| {
                let mut v = vec![c.clone(); 6];
                v[i] = d;
                v
            }
        }),
        3 => (0usize..6, 0usize..6, disturbed.clone(), disturbed.clone()).prop_map({
            let c = c0.clone();
            move |(i, j, d1, d2)| {
                let mut v = vec![c.clone(); 6];
                v[i] = d1;
                v[j] = d2;
                v
            }
        }),
        1 => proptest::collection::vec(delivery_strategy(), 6),
    ];
    // Role-prefix confusion scenario: A expects role "ab", the third endpoint C holds the same key
    // with role "a"; the adversary relays A's challenge to C with the missing role suffix moved into
    // the challenge and hands C's proof to A. Only the fixed challenge length protects against it.
    let prefix_scenario = (0u8..4, prop_oneof![Just(1u8), Just(2u8)], any::<bool>()).prop_map(
        |(x, key, swap)| {
            let (long, short) = (5u8, 4u8); // "ab", "a"
            let a = EndpointCfg {
                protocol: 0,
                my_role: x,
                peer_role: long,
                key,
            };
            let b = EndpointCfg {
                protocol: 0,
                my_role: long,
                peer_role: x,
                key,
            };
            let c = EndpointCfg {
                protocol: 0,
                my_role: short,
                peer_role: x,
                key,
            };
            let mut d = vec![
                Delivery {
                    source: Source::Forward,
                    edit: Edit::None,
                };
                6
            ];
            // C's request slot: A's request (C's "peer" is A) with the role suffix in the challenge
            d[2] = Delivery {
                source: Source::Forward,
                edit: Edit::ChallengePrefix(long),
            };
            // A's response slot: C's response
            d[3] = Delivery {
                source: Source::FromThird,
                edit: Edit::None,
            };
            if swap {
                // variant without the prefix trick (must be refused for the role alone)
                d[2].edit = Edit::None;
            }
            ([a, b, c], d)
        },
    );
    prop_oneof![
        30 => (
            prop_oneof![4 => matching, 3 => c_like_b, 3 => any3],
            deliveries,
        ),
        1 => prefix_scenario,
    ]
        .prop_map(|(cfg, d)| AuthCase {
            cfg,
            deliveries: [
                d[0].clone(),
                d[1].clone(),
                d[2].clone(),
                d[3].clone(),
                d[4].clone(),
                d[5].clone(),
            ],
        })
        .boxed()
}

fn key_of(k: u8) -> Option<Arc<SecretKey>> {
    match k {
        0 => None,
        1 => Some(Arc::new(SecretKey::from_slice(&[7u8; 32]).unwrap())),
        _ => Some(Arc::new(SecretKey::from_slice(&[9u8; 32]).unwrap())),
    }
}

type Net = Framed<DuplexStream, LengthDelimitedCodec>;
type Keys = (
    Option<orion::aead::streaming::StreamSealer>,
    Option<orion::aead::streaming::StreamOpener>,
);

fn framed(s: DuplexStream) -> Net {
    LengthDelimitedCodec::builder()
        .little_endian()
        .max_frame_length(128 * 1024 * 1024)
        .new_framed(s)
}

struct EndpointRun {
    cfg: EndpointCfg,
    net: Net,
    handle: tokio::task::JoinHandle<Result<Keys, String>>,
    request_out: Option<Vec<u8>>,
    response_out: Option<Vec<u8>>,
    request_in: Option<Vec<u8>>,
    response_in: Option<Vec<u8>>,
}

/// Start one honest endpoint; returns the harness side of its connection
fn start_endpoint(cfg: EndpointCfg) -> EndpointRun {
    let (a, b) = tokio::io::duplex(1 << 16);
    let net = framed(a);
    let handle = tokio::task::spawn_local(async move {
        let f = framed(b);
        let (mut w, mut r) = f.split();
        let res = tako::comm::do_authentication(
            cfg.protocol,
            ROLES[cfg.my_role as usize],
            ROLES[cfg.peer_role as usize],
            key_of(cfg.key),
            &mut w,
            &mut r,
        )
        .await;
        match res {
            Ok((sealer, opener)) => Ok((sealer, opener)),
            Err(e) => Err(format!("{e:?}")),
        }
    });
    EndpointRun {
        cfg,
        net,
        handle,
        request_out: None,
        response_out: None,
        request_in: None,
        response_in: None,
    }
}

async fn read_frame(net: &mut Net) -> Option<Vec<u8>> {
    match tokio::time::timeout(Duration::from_millis(200), net.next()).await {
        Ok(Some(Ok(b))) => Some(b.to_vec()),
        _ => None,
    }
}

fn apply_edit(
    msg: Option<Vec<u8>>,
    edit: &Edit,
    is_request: bool,
    challenges: &[Option<Vec<u8>>; 3],
) -> Option<Vec<u8>> {
    let mut m = msg?;
    match edit {
        Edit::None => {}
        Edit::Truncate(n) => {
            let k = (*n as usize).min(m.len());
            m.truncate(m.len() - k);
        }
        Edit::Append(n) => {
            m.extend(std::iter::repeat_n(0xAAu8, *n as usize));
        }
        Edit::Random(s) => {
            let mut x = *s as u32 + 1;
            m = (0..(8 + *s as usize % 40))
                .map(|_| {
                    x = x.wrapping_mul(1103515245).wrapping_add(12345);
                    (x >> 16) as u8
                })
                .collect();
        }
        _ => {
            if is_request {
                if let Ok(mut r) = tako::comm::deserialize::<MRequest>(&m) {
                    match edit {
                        Edit::Role(i) => r.role = ROLES[*i as usize].to_string(),
                        Edit::Protocol(p) => r.protocol = *p,
                        Edit::ToNoAuth => {
                            r.mode = match r.mode {
                                MMode::NoAuth => MMode::Encryption(MChallenge {
                                    challenge: vec![3u8; 16],
                                }),
                                MMode::Encryption(_) => MMode::NoAuth,
                            }
                        }
                        Edit::ChallengeLen(n) => {
                            if let MMode::Encryption(c) = &mut r.mode {
                                c.challenge.resize(*n as usize, 5);
                            }
                        }
                        Edit::ChallengePrefix(i) => {
                            if let MMode::Encryption(c) = &mut r.mode {
                                // the classic role-prefix confusion: move a suffix of a role name
                                // into the challenge
                                let role = ROLES[*i as usize].as_bytes();
                                let mut v = role[role.len().saturating_sub(1)..].to_vec();
                                v.extend_from_slice(&c.challenge);
                                c.challenge = v;
                            }
                        }
                        Edit::ChallengeOf(i) => {
                            if let (MMode::Encryption(c), Some(ch)) =
                                (&mut r.mode, &challenges[*i as usize % 3])
                            {
                                c.challenge = ch.clone();
                            }
                        }
                        _ => {}
                    }
                    m = tako::comm::serialize(&r).unwrap();
                }
            } else if let Ok(mut r) = tako::comm::deserialize::<MResponse>(&m) {
                match edit {
                    Edit::FlipNonce(b) => {
                        if let MResponse::Encryption(e) = &mut r {
                            if !e.nonce.is_empty() {
                                let i = *b as usize % e.nonce.len();
                                e.nonce[i] ^= 1 << (*b % 8);
                            }
                        }
                    }
                    Edit::FlipCipher(b) => {
                        if let MResponse::Encryption(e) = &mut r {
                            if !e.response.is_empty() {
                                let i = *b as usize % e.response.len();
                                e.response[i] ^= 1 << (*b % 8);
                            }
                        }
                    }
                    Edit::ResponseToNoAuth => r = MResponse::NoAuth,
                    Edit::ResponseToError => {
                        r = MResponse::Error(MError {
                            message: "x".to_string(),
                        })
                    }
                    _ => {}
                }
                m = tako::comm::serialize(&r).unwrap();
            }
        }
    }
    Some(m)
}

fn challenge_of(req: &Option<Vec<u8>>) -> Option<Vec<u8>> {
    let r: MRequest = tako::comm::deserialize(req.as_ref()?).ok()?;
    match r.mode {
        MMode::Encryption(c) => Some(c.challenge),
        MMode::NoAuth => None,
    }
}

pub struct AuthResult {
    pub accepted: [Option<bool>; 3],
    pub expected: [bool; 3],
    pub errors: [String; 3],
    pub classes: Vec<String>,
    pub roundtrip_failed: bool,
}

/// One honest response with its provenance
struct Produced {
    bytes_response: Vec<u8>,
    bytes_nonce: Vec<u8>,
    key: u8,
    role: u8,
    answered_challenge: Option<Vec<u8>>,
}

fn cond1(cfg: &EndpointCfg, rin: &Option<Vec<u8>>) -> bool {
    let Some(b) = rin else { return false };
    let Ok(r) = tako::comm::deserialize::<MRequest>(b) else {
        return false;
    };
    if r.protocol != cfg.protocol || r.role != ROLES[cfg.peer_role as usize] {
        return false;
    }
    match (&r.mode, cfg.key) {
        (MMode::NoAuth, 0) => true,
        (MMode::Encryption(c), k) if k != 0 => c.challenge.len() == 16,
        _ => false,
    }
}

async fn run_session(
    cfgs: &[EndpointCfg; 3],
    deliveries: Option<&[Delivery; 6]>,
    old: Option<&[EndpointRun; 3]>,
) -> [EndpointRun; 3] {
    let mut eps = [
        start_endpoint(cfgs[0]),
        start_endpoint(cfgs[1]),
        start_endpoint(cfgs[2]),
    ];
    // phase 1: every endpoint sends its request
    for e in eps.iter_mut() {
        e.request_out = read_frame(&mut e.net).await;
    }
    let challenges: [Option<Vec<u8>>; 3] = [
        challenge_of(&eps[0].request_out),
        challenge_of(&eps[1].request_out),
        challenge_of(&eps[2].request_out),
    ];
    // peer mapping: A <-> B; C's "peer" is A, the third endpoint of A and B is C
    let peer = |i: usize| match i {
        0 => 1,
        1 => 0,
        _ => 0,
    };
    let third = |i: usize| match i {
        0 => 2,
        1 => 2,
        _ => 1,
    };
    let pick = |slot: usize, i: usize, eps: &[EndpointRun; 3]| -> Option<Vec<u8>> {
        let d = match deliveries {
            None => &Delivery {
                source: Source::Forward,
                edit: Edit::None,
            },
            Some(ds) => &ds[slot * 3 + i],
        };
        let get = |e: &EndpointRun| {
            if slot == 0 {
                e.request_out.clone()
            } else {
                e.response_out.clone()
            }
        };
        let raw = match d.source {
            Source::Forward => get(&eps[peer(i)]),
            Source::Drop => None,
            Source::Reflect => get(&eps[i]),
            Source::ReplayOld => old.and_then(|o| get(&o[peer(i)])),
            Source::FromThird => get(&eps[third(i)]),
        };
        apply_edit(raw, &d.edit, slot == 0, &challenges)
    };
    // phase 2: deliver requests
    for i in 0..3 {
        let m = pick(0, i, &eps);
        if let Some(m) = &m {
            let _ = eps[i].net.send(Bytes::from(m.clone())).await;
        }
        eps[i].request_in = m;
    }
    for e in eps.iter_mut() {
        if e.request_in.is_some() {
            e.response_out = read_frame(&mut e.net).await;
        }
    }
    // phase 3: deliver responses
    for i in 0..3 {
        let m = pick(1, i, &eps);
        if let Some(m) = &m {
            let _ = eps[i].net.send(Bytes::from(m.clone())).await;
        }
        eps[i].response_in = m;
    }
    eps
}

pub fn execute(case: &AuthCase) -> AuthResult {
    let rt = tokio::runtime::Builder::new_current_thread()
        .enable_time()
        .start_paused(true)
        .build()
        .unwrap();
    let local = tokio::task::LocalSet::new();
    rt.block_on(local.run_until(async {
        // an earlier, undisturbed session with the same configurations (material for replays)
        let old = run_session(&case.cfg, None, None).await;
        let mut old = old;
        for e in old.iter_mut() {
            let _ = tokio::time::timeout(Duration::from_secs(60), &mut e.handle).await;
        }
        let mut eps = run_session(&case.cfg, Some(&case.deliveries), Some(&old)).await;
        let mut accepted = [None, None, None];
        let mut errors = [String::new(), String::new(), String::new()];
        let mut keys: [Option<Keys>; 3] = [None, None, None];
        for (i, e) in eps.iter_mut().enumerate() {
            match tokio::time::timeout(Duration::from_secs(120), &mut e.handle).await {
                Ok(Ok(Ok(k))) => {
                    accepted[i] = Some(true);
                    keys[i] = Some(k);
                }
                Ok(Ok(Err(err))) => {
                    accepted[i] = Some(false);
                    errors[i] = err;
                }
                Ok(Err(join)) => {
                    accepted[i] = None;
                    errors[i] = format!("endpoint task panicked: {join:?}");
                }
                Err(_) => {
                    accepted[i] = None;
                    errors[i] = "endpoint did not finish".to_string();
                }
            }
        }
        // provenance: all honest encrypted responses of both sessions
        let mut produced: Vec<Produced> = Vec::new();
        for set in [&old, &eps] {
            for e in set.iter() {
                if let Some(out) = &e.response_out {
                    if let Ok(MResponse::Encryption(enc)) = tako::comm::deserialize::<MResponse>(out) {
                        produced.push(Produced {
                            bytes_response: enc.response,
                            bytes_nonce: enc.nonce,
                            key: e.cfg.key,
                            role: e.cfg.my_role,
                            answered_challenge: challenge_of(&e.request_in),
                        });
                    }
                }
            }
        }
        let mut expected = [false; 3];
        let mut classes = Vec::new();
        for (i, e) in eps.iter().enumerate() {
            let c1 = cond1(&e.cfg, &e.request_in);
            let my_challenge = challenge_of(&e.request_out);
            let c2 = match &e.response_in {
                None => false,
                Some(b) => match tako::comm::deserialize::<MResponse>(b) {
                    Ok(MResponse::NoAuth) => e.cfg.key == 0,
                    Ok(MResponse::Encryption(enc)) => {
                        e.cfg.key != 0
                            && produced.iter().any(|p| {
                                p.key == e.cfg.key
                                    && p.role == e.cfg.peer_role
                                    && p.bytes_response == enc.response
                                    && p.bytes_nonce == enc.nonce
                                    && p.answered_challenge.is_some()
                                    && p.answered_challenge == my_challenge
                            })
                    }
                    _ => false,
                },
            };
            expected[i] = c1 && c2;
        }
        if let Some(ds) = Some(&case.deliveries) {
            let undisturbed = ds
                .iter()
                .enumerate()
                .all(|(k, d)| k % 3 == 2 || (d.source == Source::Forward && d.edit == Edit::None));
            if undisturbed {
                classes.push("undisturbed".to_string());
            } else {
                classes.push("adversarial".to_string());
            }
            if ds.iter().any(|d| {
                matches!(
                    d.source,
                    Source::Reflect | Source::ReplayOld | Source::FromThird
                )
            }) {
                classes.push("substituted".to_string());
            }
        }
        let a = &case.cfg[0];
        let b = &case.cfg[1];
        let matching = a.protocol == b.protocol
            && a.my_role == b.peer_role
            && a.peer_role == b.my_role
            && a.key == b.key;
        classes.push(if matching { "matching-config" } else { "mismatching-config" }.to_string());
        let n_acc = accepted.iter().filter(|a| **a == Some(true)).count();
        if n_acc > 0 && classes.iter().any(|c| c == "adversarial") {
            classes.push("acceptance-under-disturbance".to_string());
        }
        if accepted[0] == Some(true) && accepted[1] == Some(true) {
            classes.push("both-accept".to_string());
        }
        if classes.iter().any(|c| c == "substituted") && n_acc > 0 {
            classes.push("acceptance-with-substituted-message".to_string());
        }
        // after an undisturbed exchange between matching endpoints a sealed message must
        // round-trip in both directions (and the protection must be on iff there is a key)
        let mut roundtrip_failed = false;
        let undisturbed_ab = [0usize, 1, 3, 4]
            .iter()
            .all(|k| case.deliveries[*k].source == Source::Forward && case.deliveries[*k].edit == Edit::None);
        if undisturbed_ab && matching {
            let (ka, rest) = keys.split_at_mut(1);
            if let (Some((sa, oa)), Some((sb, ob))) = (ka[0].as_mut(), rest[0].as_mut()) {
                let protected = case.cfg[0].key != 0;
                if sa.is_some() != protected
                    || oa.is_some() != protected
                    || sb.is_some() != protected
                    || ob.is_some() != protected
                {
                    roundtrip_failed = true;
                }
                for round in 0..2u8 {
                    let payload: Vec<u8> = vec![round, 1, 2, 3, 250];
                    let data: Bytes = tako::comm::serialize(&payload).unwrap().into();
                    let sealed = tako::comm::seal_message(sa, data.clone());
                    if protected && sealed == data {
                        roundtrip_failed = true;
                    }
                    match tako::comm::open_message::<Vec<u8>>(ob, &sealed) {
                        Ok(p) if p == payload => {}
                        _ => roundtrip_failed = true,
                    }
                    let sealed = tako::comm::seal_message(sb, data.clone());
                    match tako::comm::open_message::<Vec<u8>>(oa, &sealed) {
                        Ok(p) if p == payload => {}
                        _ => roundtrip_failed = true,
                    }
                }
                classes.push("sealed-roundtrip-checked".to_string());
            }
        }
        AuthResult {
            accepted,
            expected,
            errors,
            classes,
            roundtrip_failed,
        }
    }))
}

pub struct AuthEngine;

impl Engine for AuthEngine {
    type Case = AuthCase;
    fn hang_limit_secs(&self) -> u64 {
        // cases of this engine take milliseconds
        90
    }
    fn property(&self) -> &str {
        "C20"
    }
    fn strategy(&self, _tier: Tier) -> BoxedStrategy<Self::Case> {
        case_strategy()
    }
    fn quick_cases(&self) -> usize {
        1_000_000
    }
    fn thorough_cases(&self) -> usize {
        30_000_000
    }
    fn run(&self, case: &Self::Case) -> Outcome {
        crate::sim::install_panic_hook();
        let r = execute(case);
        let mut out = Outcome::default();
        out.trace_hash = hash_str(&format!("{case:?}"));
        out.classes = r.classes.clone();
        out.nontrivial = r.classes.iter().any(|c| c == "substituted" || c == "mismatching-config");
        out.summary = serde_json::json!({
            "cfg": format!("{:?}", case.cfg),
            "deliveries": format!("{:?}", case.deliveries),
            "accepted": format!("{:?}", r.accepted),
            "expected": format!("{:?}", r.expected),
            "errors": r.errors,
        });
        if r.roundtrip_failed {
            out.violation = Some(Violation {
                signature: "sealed message does not round-trip after a successful handshake".to_string(),
                detail: format!("case {case:?}"),
            });
        }
        for i in 0..3 {
            let name = ["A", "B", "C"][i];
            match r.accepted[i] {
                None => {
                    out.violation = Some(Violation {
                        signature: "handshake endpoint panics or hangs".to_string(),
                        detail: format!("endpoint {name}: {}", r.errors[i]),
                    });
                    break;
                }
                Some(acc) => {
                    if acc && !r.expected[i] {
                        out.violation = Some(Violation {
                            signature: "endpoint accepted a connection although its peer did not prove key, protocol and role for this connection".to_string(),
                            detail: format!("endpoint {name} accepted; case {case:?}"),
                        });
                        break;
                    }
                    if !acc && r.expected[i] {
                        out.violation = Some(Violation {
                            signature: "endpoint refused a connection although a valid proof arrived unmodified".to_string(),
                            detail: format!("endpoint {name} refused ({}); case {case:?}", r.errors[i]),
                        });
                        break;
                    }
                }
            }
        }
        out
    }
    fn rule(&self) -> String {
        "AUTH engine: three honest do_authentication endpoints (A-B under attack, C reachable by the adversary) with generated configurations (protocol, role pair, key none/K1/K2) after an earlier clean session; per delivered message the adversary forwards, drops, reflects, replays from the earlier session, splices from the third endpoint and/or edits (role, protocol, mode, challenge length/prefix/other endpoint's challenge, nonce and ciphertext bits, response kind, truncate/append/random). Oracle: an endpoint accepts iff the request it received has its protocol, its expected peer role and a compatible mode, and the response it received is NoAuth (no key) or byte-identical to a response produced by an honest holder of the same key with the expected role in answer to this connection's challenge. Distinct = hash of the case. Non-trivial = a substituted/reflected/replayed message or a configuration mismatch".into()
    }
    fn assumptions(&self) -> Vec<String> {
        vec![
            "cryptographic strength of orion (XChaCha20-Poly1305 streams) is assumed: forgeries are not searched".into(),
            "an endpoint's own role name differs from its expected peer role (every caller uses complementary role names)".into(),
            "timeouts run on tokio's paused clock".into(),
        ]
    }
}

// ------------------------------------------------------------------------------------ wiring

/// One connection attempt against the real server: (port: 0 client / 1 worker, roles: 0 the HQ
/// client pair / 1 the worker pair, key: 0 client key / 1 worker key / 2 another key / 3 none,
/// protocol number).
pub type WireAttempt = (u8, u8, u8, u32);

pub struct WireResult {
    /// (attempt, accepted on the connecting side)
    pub attempts: Vec<(WireAttempt, bool)>,
    pub skipped: Option<String>,
}

fn wire_expected(a: &WireAttempt) -> bool {
    matches!(a, (0, 0, 0, 0) | (1, 1, 1, 0))
}

/// How HyperQueue wires keys, roles and the protocol number into the handshake: the real
/// server (`init_hq_server`) is started with two different keys and every combination of
/// port x role pair x key x protocol number is tried as a connecting peer (exhaustive, 32
/// attempts). Only the two matching combinations may be accepted.
pub fn wire_phase(only: Option<WireAttempt>) -> WireResult {
    use hyperqueue::client::globalsettings::GlobalSettings;
    use hyperqueue::client::output::quiet::Quiet;
    use hyperqueue::common::serverdir::ServerDir;
    use hyperqueue::server::bootstrap::{ServerConfig, get_client_session, init_hq_server};
    let dir = crate::sim::thread_dir().join("wire-server-dir");
    let _ = std::fs::remove_dir_all(&dir);
    if let Err(e) = std::fs::create_dir_all(&dir) {
        return WireResult { attempts: Vec::new(), skipped: Some(format!("{e:?}")) };
    }
    let ck = Arc::new(SecretKey::from_slice(&[21u8; 32]).unwrap());
    let wk = Arc::new(SecretKey::from_slice(&[22u8; 32]).unwrap());
    let other = Arc::new(SecretKey::from_slice(&[23u8; 32]).unwrap());
    let h = std::thread::Builder::new()
        .stack_size(32 << 20)
        .spawn(move || -> WireResult {
            let rt = match tokio::runtime::Builder::new_current_thread().enable_all().build() {
                Ok(rt) => rt,
                Err(e) => return WireResult { attempts: Vec::new(), skipped: Some(format!("{e:?}")) },
            };
            let local = tokio::task::LocalSet::new();
            rt.block_on(local.run_until(async move {
                let gsettings = GlobalSettings::new(dir.clone(), Box::new(Quiet));
                let cfg = ServerConfig {
                    worker_host: "localhost".to_string(),
                    client_host: "localhost".to_string(),
                    idle_timeout: None,
                    client_port: None,
                    worker_port: None,
                    journal_path: None,
                    journal_flush_period: Duration::from_secs(30),
                    worker_secret_key: Some(wk.clone()),
                    client_secret_key: Some(ck.clone()),
                    server_uid: None,
                    scheduler_mip_time_limit: Duration::from_secs(5),
                };
                let server = init_hq_server(&gsettings, cfg);
                let client = async {
                    // wait for the access file
                    let mut ports = None;
                    for _ in 0..200 {
                        if let Ok(sd) = ServerDir::open(&dir) {
                            if let (Ok(c), Ok(w)) =
                                (sd.read_client_access_record(), sd.read_worker_access_record())
                            {
                                ports = Some((c.client.port, w.worker.port));
                                break;
                            }
                        }
                        tokio::time::sleep(Duration::from_millis(25)).await;
                    }
                    if std::env::var("VERIF_DEBUG_WIRE").is_ok() {
                        eprintln!("wire ports {ports:?} dir {}", dir.display());
                    }
                    let Some((cport, wport)) = ports else {
                        return WireResult { attempts: Vec::new(), skipped: Some("no access file".into()) };
                    };
                    let mut attempts = Vec::new();
                    let mut skipped = None;
                    'outer: for port in 0..2u8 {
                        for roles in 0..2u8 {
                            for key in 0..4u8 {
                                for protocol in 0..2u32 {
                                    let a: WireAttempt = (port, roles, key, protocol);
                                    if only.is_some_and(|o| o != a) {
                                        continue;
                                    }
                                    let addr = format!("127.0.0.1:{}", if port == 0 { cport } else { wport });
                                    let stream = match tokio::net::TcpStream::connect(&addr).await {
                                        Ok(s) => s,
                                        Err(e) => {
                                            skipped = Some(format!("connect {addr}: {e:?}"));
                                            break 'outer;
                                        }
                                    };
                                    // the framing of tako's transport (little endian length prefix)
                                    let (mut w, mut r) = tokio_util::codec::LengthDelimitedCodec::builder()
                                        .little_endian()
                                        .max_frame_length(128 * 1024 * 1024)
                                        .new_framed(stream)
                                        .split();
                                    let (mine, peer): (&'static str, &'static str) = if roles == 0 {
                                        ("hq-client", "hq-server")
                                    } else {
                                        ("worker", "server")
                                    };
                                    let k = match key {
                                        0 => Some(ck.clone()),
                                        1 => Some(wk.clone()),
                                        2 => Some(other.clone()),
                                        _ => None,
                                    };
                                    let res = tokio::time::timeout(
                                        Duration::from_secs(20),
                                        tako::comm::do_authentication(protocol, mine, peer, k, &mut w, &mut r),
                                    )
                                    .await;
                                    if std::env::var("VERIF_DEBUG_WIRE").is_ok() {
                                        eprintln!("wire attempt {a:?}: {:?}", res.as_ref().map(|r| r.as_ref().map(|_| "ok").map_err(|e| format!("{e:?}"))));
                                    }
                                    attempts.push((a, matches!(res, Ok(Ok(_)))));
                                }
                            }
                        }
                    }
                    // stop the server through the real client path
                    if let Ok(mut session) = get_client_session(&dir).await {
                        let _ = hyperqueue::client::server::client_stop_server(session.connection()).await;
                    } else if skipped.is_none() {
                        skipped = Some("no client session for stopping the server".into());
                    }
                    WireResult { attempts, skipped }
                };
                match tokio::time::timeout(Duration::from_secs(120), async { tokio::join!(server, client) }).await {
                    Ok((_s, c)) => c,
                    Err(_) => WireResult { attempts: Vec::new(), skipped: Some("timeout".into()) },
                }
            }))
        });
    match h.map(|h| h.join()) {
        Ok(Ok(r)) => r,
        _ => WireResult { attempts: Vec::new(), skipped: Some("wiring phase thread failed".into()) },
    }
}

/// Returns a violation (signature, detail, attempt) if an attempt was decided wrongly.
pub fn wire_verdict(r: &WireResult) -> Option<(String, String, WireAttempt)> {
    for (a, ok) in &r.attempts {
        if *ok != wire_expected(a) {
            let what = format!(
                "port {} roles {} key {} protocol {}",
                if a.0 == 0 { "client" } else { "worker" },
                if a.1 == 0 { "hq-client/hq-server" } else { "worker/server" },
                ["client key", "worker key", "another key", "no key"][a.2 as usize],
                a.3
            );
            return Some((
                if *ok {
                    "real server accepted a connection with the wrong key, role or protocol".to_string()
                } else {
                    "real server refused a connection with the matching key, role and protocol".to_string()
                },
                what,
                *a,
            ));
        }
    }
    None
}

// ------------------------------------------------------------------------------------ connector

/// The client-side connector of HyperQueue (`ClientSession::connect_to_server`) against a
/// listener of the harness. `behaviours[i]` is what the listener does with the i-th connection:
/// 0 close it at once, 1 send garbage and close, 2 an honest server without a key, 3 an honest
/// server with the client's key, 4 an honest server with another key.
pub type ConnectorCase = (bool, Vec<u8>);

/// Returns (client result ok, number of connections the listener saw).
pub fn run_connector_case(case: &ConnectorCase) -> Result<(bool, usize), String> {
    use hyperqueue::common::serverdir::{ClientAccessRecord, ConnectAccessRecordPart};
    use hyperqueue::transfer::connection::ClientSession;
    let (has_key, behaviours) = case.clone();
    let h = std::thread::Builder::new()
        .stack_size(16 << 20)
        .spawn(move || -> Result<(bool, usize), String> {
            let rt = tokio::runtime::Builder::new_current_thread()
                .enable_all()
                .build()
                .map_err(|e| format!("{e:?}"))?;
            let local = tokio::task::LocalSet::new();
            rt.block_on(local.run_until(async move {
                let listener = tokio::net::TcpListener::bind("127.0.0.1:0")
                    .await
                    .map_err(|e| format!("bind: {e:?}"))?;
                let port = listener.local_addr().map_err(|e| format!("{e:?}"))?.port();
                let key = Arc::new(SecretKey::from_slice(&[31u8; 32]).unwrap());
                let other = Arc::new(SecretKey::from_slice(&[32u8; 32]).unwrap());
                let seen = Rc::new(RefCell::new(0usize));
                let seen2 = seen.clone();
                let key2 = key.clone();
                let server = tokio::task::spawn_local(async move {
                    let mut keep = Vec::new();
                    loop {
                        let Ok((stream, _)) = listener.accept().await else { break };
                        let i = *seen2.borrow();
                        *seen2.borrow_mut() += 1;
                        let b = behaviours.get(i).copied().unwrap_or(0);
                        match b {
                            0 => drop(stream),
                            1 => {
                                use tokio::io::AsyncWriteExt;
                                let mut s = stream;
                                let _ = s.write_all(&[3, 0, 0, 0, 1, 2, 3]).await;
                                drop(s);
                            }
                            _ => {
                                let k = match b {
                                    2 => None,
                                    3 => Some(key2.clone()),
                                    _ => Some(other.clone()),
                                };
                                let (mut w, mut r) = LengthDelimitedCodec::builder()
                                    .little_endian()
                                    .max_frame_length(128 * 1024 * 1024)
                                    .new_framed(stream)
                                    .split();
                                let _ = tokio::time::timeout(
                                    Duration::from_secs(5),
                                    tako::comm::do_authentication(0, "hq-server", "hq-client", k, &mut w, &mut r),
                                )
                                .await;
                                keep.push((w, r));
                            }
                        }
                    }
                });
                let record = ClientAccessRecord {
                    version: "verif".to_string(),
                    client: ConnectAccessRecordPart {
                        host: "127.0.0.1".to_string(),
                        port,
                        secret_key: if has_key { Some(key.clone()) } else { None },
                    },
                };
                let res = tokio::time::timeout(
                    Duration::from_secs(30),
                    ClientSession::connect_to_server(&record),
                )
                .await;
                server.abort();
                let n = *seen.borrow();
                match res {
                    Err(_) => Err("client did not come back within 30 s".to_string()),
                    Ok(r) => Ok((r.is_ok(), n)),
                }
            }))
        })
        .map_err(|e| format!("{e:?}"))?;
    h.join().map_err(|_| "connector thread panicked".to_string())?
}

/// Verdict for one case: the client may accept only the connection of an honest server that
/// proved the client's configuration for that very connection, and it accepts an undisturbed
/// exchange with such a server.
pub fn connector_verdict(case: &ConnectorCase, ok: bool, seen: usize) -> Option<(String, String)> {
    let compatible = if case.0 { 3u8 } else { 2u8 };
    if ok {
        let last = if seen == 0 { 255 } else { case.1.get(seen - 1).copied().unwrap_or(0) };
        if last != compatible {
            return Some((
                "client connector accepted a server that did not prove the client's key for this connection".into(),
                format!("client key: {}, listener behaviours {:?}, accepted on connection #{seen} (behaviour {last})", case.0, case.1),
            ));
        }
    } else if case.1.first() == Some(&compatible) {
        return Some((
            "client connector refused an undisturbed exchange with a matching server".into(),
            format!("client key: {}, listener behaviours {:?}", case.0, case.1),
        ));
    }
    None
}

/// All behaviour sequences up to length 3 for both client configurations (310 cases).
pub fn connector_cases() -> Vec<ConnectorCase> {
    let mut out = Vec::new();
    for has_key in [true, false] {
        for a in 0..5u8 {
            out.push((has_key, vec![a]));
            for b in 0..5u8 {
                out.push((has_key, vec![a, b]));
                for c in 0..5u8 {
                    out.push((has_key, vec![a, b, c]));
                }
            }
        }
    }
    out
}

// ----------------------------------------------------------------------------- worker connector

/// The worker-side connector of tako (`connect_to_server_and_authenticate`, the function the
/// worker's registration loop calls for every attempt) against a listener of the harness.
/// `(worker has a key, behaviour of the listener)`; behaviours: 0 close at once, 1 garbage,
/// 2 honest worker endpoint without a key, 3 honest worker endpoint with the worker's key,
/// 4 honest worker endpoint with another key, 5 the worker's key but the roles of the client
/// endpoint, 6 the worker's key and the right roles but another protocol number, 7 no key and
/// the roles of the client endpoint.
pub type WorkerConnectorCase = (bool, u8);

pub fn run_worker_connector_case(case: &WorkerConnectorCase) -> Result<bool, String> {
    let (has_key, b) = *case;
    let h = std::thread::Builder::new()
        .stack_size(16 << 20)
        .spawn(move || -> Result<bool, String> {
            let rt = tokio::runtime::Builder::new_current_thread()
                .enable_all()
                .build()
                .map_err(|e| format!("{e:?}"))?;
            let local = tokio::task::LocalSet::new();
            rt.block_on(local.run_until(async move {
                let listener = tokio::net::TcpListener::bind("127.0.0.1:0")
                    .await
                    .map_err(|e| format!("bind: {e:?}"))?;
                let addr = listener.local_addr().map_err(|e| format!("{e:?}"))?;
                let key = Arc::new(SecretKey::from_slice(&[41u8; 32]).unwrap());
                let other = Arc::new(SecretKey::from_slice(&[42u8; 32]).unwrap());
                let key2 = key.clone();
                let server = tokio::task::spawn_local(async move {
                    let mut keep = Vec::new();
                    loop {
                        let Ok((stream, _)) = listener.accept().await else { break };
                        match b {
                            0 => drop(stream),
                            1 => {
                                use tokio::io::AsyncWriteExt;
                                let mut s = stream;
                                let _ = s.write_all(&[3, 0, 0, 0, 1, 2, 3]).await;
                                drop(s);
                            }
                            _ => {
                                let k = match b {
                                    2 | 7 => None,
                                    4 => Some(other.clone()),
                                    _ => Some(key2.clone()),
                                };
                                let (my, peer) = if b == 5 || b == 7 { ("hq-server", "hq-client") } else { ("server", "worker") };
                                let protocol = if b == 6 { 1 } else { 0 };
                                let (mut w, mut r) = LengthDelimitedCodec::builder()
                                    .little_endian()
                                    .max_frame_length(128 * 1024 * 1024)
                                    .new_framed(stream)
                                    .split();
                                let _ = tokio::time::timeout(
                                    Duration::from_secs(5),
                                    tako::comm::do_authentication(protocol, my, peer, k, &mut w, &mut r),
                                )
                                .await;
                                keep.push((w, r));
                            }
                        }
                    }
                });
                let res = tokio::time::timeout(
                    Duration::from_secs(30),
                    tako::comm::connect_to_server_and_authenticate(&[addr], if has_key { Some(key.clone()) } else { None }),
                )
                .await;
                server.abort();
                match res {
                    Err(_) => Err("worker connector did not come back within 30 s".to_string()),
                    Ok(r) => Ok(r.is_ok()),
                }
            }))
        })
        .map_err(|e| format!("{e:?}"))?;
    h.join().map_err(|_| "worker connector thread panicked".to_string())?
}

/// The worker may accept exactly the listener that proved the worker's key, the roles
/// server / worker and the worker protocol number; and it accepts that one.
pub fn worker_connector_verdict(case: &WorkerConnectorCase, ok: bool) -> Option<(String, String)> {
    let compatible = if case.0 { 3u8 } else { 2u8 };
    if ok && case.1 != compatible {
        return Some((
            "worker connector accepted a server that did not prove the worker's key, role and protocol".into(),
            format!("worker key: {}, listener behaviour {}", case.0, case.1),
        ));
    }
    if !ok && case.1 == compatible {
        return Some((
            "worker connector refused an undisturbed exchange with a matching server".into(),
            format!("worker key: {}, listener behaviour {}", case.0, case.1),
        ));
    }
    None
}

pub fn worker_connector_cases() -> Vec<WorkerConnectorCase> {
    let mut out = Vec::new();
    for has_key in [true, false] {
        for b in 0..8u8 {
            out.push((has_key, b));
        }
    }
    out
}
