//! Engine STREAM (C19): real StreamerRef/StreamSender writers (several "workers" writing into one
//! directory, interleaved by a generated schedule, some of them crashing = file truncated) and the
//! real OutputLog reader; round-trip oracle through the real `cat` / `export` / `summary`.

use std::collections::BTreeMap;
use std::io::{Read, Seek, SeekFrom};
use std::os::fd::AsRawFd;
use std::path::{Path, PathBuf};
use std::sync::Mutex;

use hyperqueue::client::commands::outputlog::{CatOpts, Channel, ExportOpts};
use hyperqueue::stream::reader::outputlog::OutputLog;
use hyperqueue::worker::streamer::{StreamSender, StreamerRef};
use proptest::prelude::*;
use serde::{Deserialize, Serialize};
use tako::{InstanceId, JobId, JobTaskId, TaskId, WorkerId};

use crate::common::{Engine, Outcome, Tier, Violation, hash_str, pick};

#[derive(Serialize, Deserialize, Debug, Clone)]
pub struct ExecSpec {
    pub writer: u8,
    /// (channel, size kind)
    pub chunks: Vec<(u8, u8)>,
}

#[derive(Serialize, Deserialize, Debug, Clone)]
pub struct TaskSpec {
    pub job: u8,
    pub task: u8,
    /// executions in instance order; instance ids are `first_instance + k * step`
    pub first_instance: u8,
    pub execs: Vec<ExecSpec>,
}

#[derive(Serialize, Deserialize, Debug, Clone)]
pub struct StreamCase {
    pub n_writers: u8,
    /// writers that crash: (writer, cut position selector)
    pub crashed: Vec<(u8, u16)>,
    pub tasks: Vec<TaskSpec>,
    pub schedule: Vec<u16>,
}

const SIZES: [usize; 6] = [1, 7, 300, 4096, 16384, 16385];

pub fn case_strategy() -> BoxedStrategy<StreamCase> {
    let exec = (
        0u8..4,
        proptest::collection::vec((0u8..2, 0u8..SIZES.len() as u8), 0..7),
    )
        .prop_map(|(writer, chunks)| ExecSpec { writer, chunks });
    let task = (
        1u8..3,
        0u8..10,
        0u8..3,
        proptest::collection::vec(exec, 1..4),
    )
        .prop_map(|(job, task, first_instance, execs)| TaskSpec {
            job,
            task,
            first_instance,
            execs,
        });
    let few = (
        1u8..5,
        proptest::collection::vec((0u8..4, any::<u16>()), 0..3),
        proptest::collection::vec(task, 1..10),
        proptest::collection::vec(any::<u16>(), 0..120),
    )
        .prop_map(|(n_writers, crashed, tasks, schedule)| StreamCase {
            n_writers,
            crashed,
            tasks,
            schedule,
        });
    // many workers writing into one directory (the reader keeps a bounded number of files open):
    // 17-22 writers, 24-40 short tasks spread over them
    let exec_m = (
        0u8..22,
        proptest::collection::vec((0u8..2, 0u8..4), 0..4),
    )
        .prop_map(|(writer, chunks)| ExecSpec { writer, chunks });
    let task_m = (
        1u8..3,
        0u8..40,
        0u8..3,
        proptest::collection::vec(exec_m, 1..3),
    )
        .prop_map(|(job, task, first_instance, execs)| TaskSpec {
            job,
            task,
            first_instance,
            execs,
        });
    let many = (
        17u8..23,
        proptest::collection::vec((0u8..22, any::<u16>()), 0..3),
        proptest::collection::vec(task_m, 24..41),
        proptest::collection::vec(any::<u16>(), 0..200),
    )
        .prop_map(|(n_writers, crashed, tasks, schedule)| StreamCase {
            n_writers,
            crashed,
            tasks,
            schedule,
        });
    prop_oneof![6 => few, 1 => many].boxed()
}

static STDOUT_LOCK: Mutex<()> = Mutex::new(());

/// Run `f` with the process stdout redirected into a temporary file and return what it printed.
fn capture_stdout<F: FnOnce() -> anyhow::Result<()>>(f: F) -> (anyhow::Result<()>, Vec<u8>) {
    let _g = STDOUT_LOCK.lock().unwrap_or_else(|e| e.into_inner());
    let mut tmp = tempfile::tempfile().expect("tempfile");
    use std::io::Write;
    let _ = std::io::stdout().flush();
    let saved = unsafe { libc::dup(1) };
    assert!(saved >= 0);
    unsafe {
        libc::dup2(tmp.as_raw_fd(), 1);
    }
    let r = f();
    let _ = std::io::stdout().flush();
    unsafe {
        libc::dup2(saved, 1);
        libc::close(saved);
    }
    let mut out = Vec::new();
    let _ = tmp.seek(SeekFrom::Start(0));
    let _ = tmp.read_to_end(&mut out);
    (r, out)
}

fn payload(task: TaskId, instance: u32, channel: u8, seq: usize, size: usize) -> Vec<u8> {
    // content identifies its origin so that mixed-up data is visible
    let tag = format!(
        "<{}:{}:{}:{}>",
        task.job_task_id().as_num(),
        instance,
        channel,
        seq
    );
    let t = tag.as_bytes();
    (0..size).map(|i| t[i % t.len()]).collect()
}

/// Text output with multi-byte characters: one continuous stream per (execution, channel), cut
/// into chunks at byte positions (a chunk boundary may fall inside a character, as it does
/// when a task prints more than the 16 KiB pipe buffer of non-ASCII text).
fn payload_text(task: TaskId, instance: u32, channel: u8, offset: usize, size: usize) -> Vec<u8> {
    let tag = format!(
        "«{}:{}:{}»€ů—",
        task.job_task_id().as_num(),
        instance,
        channel
    );
    let t = tag.as_bytes();
    (offset..offset + size).map(|i| t[i % t.len()]).collect()
}

struct ExecRun {
    task: TaskId,
    instance: u32,
    writer: usize,
    /// (channel, data) still to send; the closing chunks are appended when it completes
    todo: Vec<(u8, Vec<u8>)>,
    sent: [Vec<u8>; 2],
    sender: Option<StreamSender>,
    done: bool,
}

pub struct StreamRun {
    pub alarm: Option<(String, String)>,
    pub classes: Vec<String>,
    pub trace: Vec<String>,
}

fn list_files(dir: &Path) -> Vec<PathBuf> {
    let mut v: Vec<PathBuf> = std::fs::read_dir(dir)
        .map(|rd| rd.flatten().map(|e| e.path()).collect())
        .unwrap_or_default();
    v.sort();
    v
}

pub fn execute(case: &StreamCase) -> StreamRun {
    let mut run = StreamRun {
        alarm: None,
        classes: Vec::new(),
        trace: Vec::new(),
    };
    let base = crate::sim::thread_dir();
    let dir = base.join("stream");
    let _ = std::fs::remove_dir_all(&dir);
    std::fs::create_dir_all(&dir).unwrap();
    let n_writers = case.n_writers.max(1) as usize;
    let crashed: BTreeMap<usize, u16> = case
        .crashed
        .iter()
        .map(|(w, c)| (*w as usize % n_writers, *c))
        .collect();
    // normalise the task list: unique (job, task)
    let mut tasks: BTreeMap<(u8, u8), TaskSpec> = BTreeMap::new();
    for t in &case.tasks {
        tasks.entry((t.job, t.task)).or_insert_with(|| t.clone());
    }

    let rt = tokio::runtime::Builder::new_current_thread()
        .enable_all()
        .build()
        .unwrap();
    let local = tokio::task::LocalSet::new();
    // expected[(job, task)] = Some((instance, [stdout, stderr])) if the last execution ended on a live writer
    let mut expected: BTreeMap<(u8, u8), Option<(u32, [Vec<u8>; 2])>> = BTreeMap::new();
    let mut superseded_count: u64 = 0;
    let mut files_of_writer: BTreeMap<usize, PathBuf> = BTreeMap::new();
    let mut interleaved = false;

    rt.block_on(local.run_until(async {
        let streamers: Vec<StreamerRef> = (0..n_writers)
            .map(|w| StreamerRef::new("uid", WorkerId::new(w as u32 + 1)))
            .collect();
        // per task a queue of executions (sequential), all tasks concurrent
        let mut queues: Vec<Vec<ExecRun>> = Vec::new();
        for ((job, task), spec) in &tasks {
            let tid = TaskId::new(JobId::new(*job as u32), JobTaskId::new(*task as u32));
            let mut q = Vec::new();
            for (k, e) in spec.execs.iter().enumerate() {
                let instance = spec.first_instance as u32 + k as u32;
                let mut todo = Vec::new();
                // every third execution prints multi-byte text
                let text = (*job as u32 + *task as u32 + instance) % 3 == 0;
                let mut offset = [0usize; 2];
                for (seq, (ch, sk)) in e.chunks.iter().enumerate() {
                    let size = SIZES[*sk as usize % SIZES.len()];
                    // the worker reads the pipe with a 16 KiB buffer: bigger writes arrive split
                    let mut left = size;
                    let mut part = 0;
                    while left > 0 {
                        let n = left.min(16384);
                        if text {
                            let c = (*ch as usize).min(1);
                            todo.push((*ch, payload_text(tid, instance, *ch, offset[c], n)));
                            offset[c] += n;
                        } else {
                            todo.push((*ch, payload(tid, instance, *ch, seq * 10 + part, n)));
                        }
                        left -= n;
                        part += 1;
                    }
                }
                q.push(ExecRun {
                    task: tid,
                    instance,
                    writer: e.writer as usize % n_writers,
                    todo,
                    sent: [Vec::new(), Vec::new()],
                    sender: None,
                    done: false,
                });
            }
            q.reverse(); // pop from the back = instance order
            queues.push(q);
        }
        let mut current: Vec<Option<ExecRun>> = queues.iter_mut().map(|q| q.pop()).collect();
        let mut sched = case.schedule.iter().copied().chain(std::iter::repeat(0u16));
        let mut last_task: Option<TaskId> = None;
        loop {
            let enabled: Vec<usize> = current
                .iter()
                .enumerate()
                .filter(|(_, c)| c.is_some())
                .map(|(i, _)| i)
                .collect();
            if enabled.is_empty() {
                break;
            }
            let i = enabled[pick(sched.next().unwrap(), enabled.len())];
            let e = current[i].as_mut().unwrap();
            if e.sender.is_none() {
                let before = list_files(&dir);
                let s = streamers[e.writer]
                    .get_mut()
                    .get_stream(
                        &streamers[e.writer],
                        &dir,
                        e.task,
                        InstanceId::new(e.instance),
                    )
                    .expect("get_stream");
                e.sender = Some(s);
                if !files_of_writer.contains_key(&e.writer) {
                    // wait until the writer task created its file
                    for _ in 0..2000 {
                        tokio::task::yield_now().await;
                        let now = list_files(&dir);
                        if let Some(p) = now.iter().find(|p| !before.contains(p)) {
                            files_of_writer.insert(e.writer, p.clone());
                            break;
                        }
                        tokio::time::sleep(std::time::Duration::from_micros(200)).await;
                    }
                }
            }
            if last_task.is_some() && last_task != Some(e.task) {
                interleaved = true;
            }
            last_task = Some(e.task);
            let writer_crashes = crashed.contains_key(&e.writer);
            if !e.todo.is_empty() {
                let (ch, data) = e.todo.remove(0);
                e.sent[ch as usize].extend_from_slice(&data);
                run.trace.push(format!(
                    "w{} {}#{} ch{} +{}",
                    e.writer,
                    e.task,
                    e.instance,
                    ch,
                    data.len()
                ));
                e.sender
                    .as_ref()
                    .unwrap()
                    .send_data(ch as u32, data)
                    .await
                    .expect("send_data");
            } else {
                // the execution ends
                if !writer_crashes {
                    // what resend_stdio does at EOF of each pipe, then the flush at task end
                    let s = e.sender.as_ref().unwrap();
                    s.send_data(0, Vec::new()).await.expect("close stdout");
                    s.send_data(1, Vec::new()).await.expect("close stderr");
                    s.flush().await.expect("flush");
                    run.trace
                        .push(format!("w{} {}#{} end", e.writer, e.task, e.instance));
                } else {
                    run.trace.push(format!(
                        "w{} {}#{} lost with its writer",
                        e.writer, e.task, e.instance
                    ));
                }
                e.done = true;
                let finished = current[i].take().unwrap();
                let key = (
                    finished.task.job_id().as_num() as u8,
                    finished.task.job_task_id().as_num() as u8,
                );
                if expected.contains_key(&key) {
                    superseded_count += 1;
                }
                if writer_crashes {
                    expected.insert(key, None);
                } else {
                    expected.insert(key, Some((finished.instance, finished.sent.clone())));
                }
                current[i] = queues[i].pop();
            }
        }
        // let the writers drain their queues, then close them
        for _ in 0..50 {
            tokio::task::yield_now().await;
        }
        drop(current);
        drop(streamers);
        for _ in 0..50 {
            tokio::task::yield_now().await;
        }
        tokio::time::sleep(std::time::Duration::from_millis(1)).await;
    }));
    drop(local);
    drop(rt);

    // crashed writers: their file is cut at an arbitrary offset
    let mut torn = false;
    for (w, sel) in &crashed {
        if let Some(p) = files_of_writer.get(w) {
            if let Ok(meta) = std::fs::metadata(p) {
                let len = meta.len();
                let cut = (*sel as u64 * (len + 1)) >> 16;
                if let Ok(f) = std::fs::OpenOptions::new().write(true).open(p) {
                    let _ = f.set_len(cut);
                    torn = true;
                    run.trace.push(format!("writer {w} crashed: file cut at {cut} of {len}"));
                }
            }
        }
    }
    if files_of_writer.is_empty() {
        run.classes.push("no-file".into());
        return run;
    }

    // ---- read back
    let mut log = match OutputLog::open(&dir, None) {
        Ok(l) => l,
        Err(e) => {
            // all files torn inside their header: nothing readable is allowed only then
            let any_live = files_of_writer.keys().any(|w| !crashed.contains_key(w));
            if any_live {
                run.alarm = Some((
                    "stream directory cannot be opened".into(),
                    format!("{e:?}"),
                ));
            }
            return run;
        }
    };
    let summary = log.summary();
    let mut n_expected_tasks = 0u64;
    let mut any_superseded_checked = false;
    for ((job, task), exp) in &expected {
        let Some((instance, data)) = exp else {
            continue;
        };
        n_expected_tasks += 1;
        for (ci, ch) in [Channel::Stdout, Channel::Stderr].into_iter().enumerate() {
            let opts = CatOpts {
                job: JobId::new(*job as u32),
                channel: ch,
                task: Some(crate::sim::palette::int_array(&[*task as u32])),
                allow_unfinished: false,
            };
            let (r, out) = capture_stdout(|| log.cat(&opts));
            if let Err(e) = r {
                run.alarm = Some((
                    "cat fails for a task whose last execution ended normally".into(),
                    format!("job {job} task {task} (instance {instance}) channel {ci}: {e:?}"),
                ));
                return run;
            }
            if out != data[ci] {
                let first_diff = out
                    .iter()
                    .zip(data[ci].iter())
                    .position(|(a, b)| a != b)
                    .unwrap_or(out.len().min(data[ci].len()));
                let got_head: String = String::from_utf8_lossy(
                    &out[first_diff.saturating_sub(4)..(first_diff + 24).min(out.len())],
                )
                .to_string();
                run.alarm = Some((
                    "streamed output read back differs from what the last execution wrote".into(),
                    format!(
                        "job {job} task {task} instance {instance} channel {ci}: wrote {} bytes, read {} bytes, first difference at {first_diff} (read ..{got_head}..)",
                        data[ci].len(),
                        out.len()
                    ),
                ));
                return run;
            }
        }
        // export agrees for stdout and reports the stream finished
        let opts = ExportOpts {
            job: JobId::new(*job as u32),
            task: Some(crate::sim::palette::int_array(&[*task as u32])),
        };
        let (r, out) = capture_stdout(|| log.export(&opts));
        if let Err(e) = r {
            run.alarm = Some((
                "export fails for a task whose last execution ended normally".into(),
                format!("job {job} task {task}: {e:?}"),
            ));
            return run;
        }
        match serde_json::from_slice::<serde_json::Value>(&out) {
            Ok(v) => {
                let item = &v[0];
                let finished = item["finished"].as_bool();
                let stdout = item["stdout"].as_str().unwrap_or("");
                if finished != Some(true) {
                    run.alarm = Some((
                        "stream of a task that ended is not marked finished".into(),
                        format!("job {job} task {task} instance {instance}: export says finished={finished:?}"),
                    ));
                    return run;
                }
                // export gives text: the bytes decoded as (lossy) UTF-8 as a whole
                if stdout != String::from_utf8_lossy(data[0].as_slice()) {
                    run.alarm = Some((
                        "export disagrees with what the last execution wrote to stdout".into(),
                        format!("job {job} task {task} instance {instance}"),
                    ));
                    return run;
                }
            }
            Err(e) => {
                run.alarm = Some(("export output is not JSON".into(), format!("{e:?}")));
                return run;
            }
        }
        if tasks
            .get(&(*job, *task))
            .is_some_and(|s| s.execs.len() > 1)
        {
            any_superseded_checked = true;
        }
    }
    // summary: every task whose last execution ended normally counts as not opened; if no writer
    // crashed the numbers are exact
    if crashed.is_empty() {
        let exp_tasks = expected.len() as u64;
        let exp_streams: u64 = tasks.values().map(|t| t.execs.len() as u64).sum();
        let exp_stdout: u64 = expected
            .values()
            .filter_map(|e| e.as_ref())
            .map(|(_, d)| d[0].len() as u64)
            .sum();
        let exp_stderr: u64 = expected
            .values()
            .filter_map(|e| e.as_ref())
            .map(|(_, d)| d[1].len() as u64)
            .sum();
        if summary.n_tasks != exp_tasks
            || summary.n_streams != exp_streams
            || summary.n_opened != 0
            || summary.n_superseded != exp_streams - exp_tasks
            || summary.stdout_size != exp_stdout
            || summary.stderr_size != exp_stderr
        {
            run.alarm = Some((
                "summary of the stream directory disagrees with what was written".into(),
                format!(
                    "expected tasks={exp_tasks} streams={exp_streams} opened=0 superseded={} stdout={exp_stdout} stderr={exp_stderr}; summary tasks={} streams={} opened={} superseded={} stdout={} stderr={}",
                    exp_streams - exp_tasks,
                    summary.n_tasks,
                    summary.n_streams,
                    summary.n_opened,
                    summary.n_superseded,
                    summary.stdout_size,
                    summary.stderr_size
                ),
            ));
            return run;
        }
    }
    let _ = n_expected_tasks;
    let _ = superseded_count;
    if interleaved {
        run.classes.push("interleaved".into());
    }
    if torn {
        run.classes.push("torn-file".into());
    }
    if any_superseded_checked {
        run.classes.push("superseded-instance".into());
    }
    if files_of_writer.len() > 16 {
        run.classes.push("more-than-16-writer-files".into());
    }
    if files_of_writer.len() > 1 {
        run.classes.push("several-writer-files".into());
    }
    run
}

pub struct StreamEngine;

impl Engine for StreamEngine {
    type Case = StreamCase;
    fn hang_limit_secs(&self) -> u64 {
        // cases of this engine take milliseconds
        90
    }
    fn property(&self) -> &str {
        "C19"
    }
    fn strategy(&self, _tier: Tier) -> BoxedStrategy<Self::Case> {
        case_strategy()
    }
    fn quick_cases(&self) -> usize {
        30_000
    }
    fn thorough_cases(&self) -> usize {
        1_000_000
    }
    fn run(&self, case: &Self::Case) -> Outcome {
        crate::sim::install_panic_hook();
        crate::sim::PANICS.with(|p| p.borrow_mut().clear());
        let r = std::panic::catch_unwind(std::panic::AssertUnwindSafe(|| execute(case)));
        let mut out = Outcome::default();
        match r {
            Ok(run) => {
                out.trace_hash = hash_str(&run.trace.join("|"));
                out.classes = run.classes.clone();
                out.nontrivial = run.classes.iter().any(|c| c == "interleaved")
                    && run
                        .classes
                        .iter()
                        .any(|c| c == "superseded-instance" || c == "torn-file");
                out.summary = serde_json::json!({
                    "writers": case.n_writers,
                    "crashed": case.crashed,
                    "trace_head": run.trace.iter().take(40).collect::<Vec<_>>(),
                });
                if let Some((sig, detail)) = run.alarm {
                    out.violation = Some(Violation {
                        signature: sig,
                        detail,
                    });
                }
            }
            Err(_) => {
                let p = crate::sim::PANICS.with(|p| p.borrow().last().cloned());
                let (loc, msg) = p.unwrap_or_default();
                if loc.contains("/verif/") {
                    out.aborted = Some(format!("HARNESS PANIC at {loc}: {msg}"));
                } else {
                    out.violation = Some(Violation {
                        signature: format!(
                            "stream writer/reader panics at {}",
                            loc.rsplit("/crates/").next().unwrap_or(&loc)
                        ),
                        detail: msg,
                    });
                }
            }
        }
        out
    }
    fn rule(&self) -> String {
        "STREAM engine: 1-4 real StreamerRef writers (one per simulated worker; in one case of seven 17-22 writers with 24-40 short tasks, more files than the reader keeps open) write into one directory; up to 9 tasks with 1-3 executions each (increasing instance ids, on generated writers), 0-6 chunks per execution of sizes {1, 7, 300, 4096, 16384, 16385 -> split as the 16 KiB pipe buffer does}, closing zero-size chunks and flush at task end as program.rs does; every third execution prints multi-byte UTF-8 text as one continuous stream, so that chunk boundaries fall inside characters; chunk sends of concurrently running tasks are interleaved by a generated schedule; crashed writers lose their unflushed tail and their file is cut at a generated offset. The directory is read with the real OutputLog: cat (both channels), export (the bytes as lossy UTF-8 text) and summary are compared with the bytes the last execution of every task that ended on a live writer wrote. Distinct = hash of the send trace. Non-trivial = chunks of at least two tasks interleaved and (a superseded instance or a torn file)".into()
    }
    fn assumptions(&self) -> Vec<String> {
        vec![
            "pipes from real child processes are replaced by direct send_data calls with the chunking of resend_stdio".into(),
            "stdout of cat/export is captured by redirecting file descriptor 1 (serialised by a process-wide lock)".into(),
            "executions of one task are sequential (a new instance starts after the previous one ended or its writer died)".into(),
        ]
    }
}
