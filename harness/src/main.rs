mod alloc;
mod auth;
mod autoalloc;
mod common;
mod restore;
mod sched;
mod enumsim;
mod sim;
mod stream;

#[global_allocator]
static ALLOC: jemallocator::Jemalloc = jemallocator::Jemalloc;

use std::path::Path;
use std::sync::Arc;

use common::{Engine, Outcome, Tier, replay_engine, run_engine};
use proptest::strategy::BoxedStrategy;

/// One SIM-based property check
pub struct SimEngine {
    pub prop: &'static str,
    pub profile: &'static str,
    pub quick: usize,
    pub max_len: usize,
    pub eager_ratio: u32,
    pub nontrivial: fn(&std::collections::BTreeSet<String>) -> bool,
    pub rule: &'static str,
}

impl Engine for SimEngine {
    type Case = sim::SimCase;
    fn property(&self) -> &str {
        self.prop
    }
    fn strategy(&self, tier: Tier) -> BoxedStrategy<Self::Case> {
        let len = match tier {
            Tier::Quick => self.max_len,
            Tier::Thorough => self.max_len * 2,
        };
        if self.prop == "C09" {
            // any panic counts: next to the uniformly weighted chaos profile, the profiles of
            // the other checks (time-limited workers, time steps, launch failures, ...)
            let u = proptest::prop_oneof![
                6 => sim::case_strategy(self.profile, len, self.eager_ratio),
                1 => sim::case_strategy("steal2", len, self.eager_ratio),
                1 => sim::case_strategy("placement2", len, self.eager_ratio),
                1 => sim::case_strategy("progress2", len, self.eager_ratio),
                1 => sim::case_strategy("resources", len, self.eager_ratio),
            ];
            return common::boxed(u);
        }
        sim::case_strategy(self.profile, len, self.eager_ratio)
    }
    fn quick_cases(&self) -> usize {
        self.quick
    }
    fn thorough_cases(&self) -> usize {
        // 10x the histories at twice the length (about 25x the work of the quick tier), next to
        // the systematic phase with 40-120x its quick budget
        self.quick * 10
    }
    fn run(&self, case: &Self::Case) -> Outcome {
        let run = sim::execute(case);
        let mut out = sim::outcome_for(self.prop, &run);
        out.nontrivial = (self.nontrivial)(&run.obs.borrow().classes);
        // properties that also quantify over server restarts: the same history is additionally
        // cut at every journal record boundary and restored (RESTORE phase)
        if out.violation.is_none()
            && out.aborted.is_none()
            && matches!(self.prop, "C03" | "C06" | "C07")
        {
            let run2 = sim::execute_mode(case, sim::Mode::Restore);
            let out2 = sim::outcome_for(self.prop, &run2);
            if out2.violation.is_some() {
                out.violation = out2.violation;
                out.summary = out2.summary;
            }
            if run2.obs.borrow().classes.contains("restore-nontrivial") {
                out.classes.push("restart-with-unfinished-tasks".to_string());
            }
        }
        out
    }
    fn rule(&self) -> String {
        format!(
            "SIM engine, profile '{}': a case is (prefill thresholds, eager-io flag, choice sequence over enabled actions) interpreted against the real server core, scheduler, HQ state, journal process and worker state machines, followed by a fault-free drain without and then with capable workers. Distinct = hash of the resolved action trace. Non-trivial = {}",
            self.profile, self.rule
        )
    }
    fn assumptions(&self) -> Vec<String> {
        vec![
            "interleavings are explored at message granularity (one reactor call is atomic, as in the single-threaded production executor)".into(),
            "task bodies, sockets and timers are replaced by harness fakes at the TaskLauncher / Stream / Sink boundaries; worker registration and removal glue is mirrored in tako::verif".into(),
            "3 of 4 cases use scaled-down prefill thresholds (reserve 0-2, max 1-4) so that prefill/retract states are reached with few tasks".into(),
            "HiGHS MILP solves are assumed deterministic for identical instances".into(),
        ]
    }
}

/// RESTORE-based property check (C10, C11, C12)
pub struct RestoreEngine {
    pub prop: &'static str,
}

impl Engine for RestoreEngine {
    type Case = sim::SimCase;
    fn property(&self) -> &str {
        self.prop
    }
    fn level(&self) -> &'static str {
        "fault_enumeration"
    }
    fn strategy(&self, tier: Tier) -> BoxedStrategy<Self::Case> {
        let len = match tier {
            Tier::Quick => 70,
            Tier::Thorough => 160,
        };
        sim::case_strategy(if self.prop == "C12" { "prune" } else { "journal" }, len, 60)
    }
    fn quick_cases(&self) -> usize {
        1500
    }
    fn thorough_cases(&self) -> usize {
        20000
    }
    fn run(&self, case: &Self::Case) -> Outcome {
        let run = sim::execute_mode(case, sim::Mode::Restore);
        let mut out = sim::outcome_for(self.prop, &run);
        let c = &run.obs.borrow().classes;
        out.nontrivial = match self.prop {
            "C10" => c.contains("restore-nontrivial"),
            "C11" => c.contains("ids-of-gone-objects"),
            _ => c.contains("prune-nontrivial"),
        };
        out
    }
    fn rule(&self) -> String {
        match self.prop {
            "C10" => "RESTORE engine: a SIM history (profile 'journal': submits into closed/open jobs, starts, finishes, failures before and after start, cancels, aborts, max-fails, worker connects/losses, prunes) writes a journal through the real journal process; the file is cut at every record boundary (all if <= 48, else 36 evenly spaced + the last 12) and at 8 interior byte offsets; the real restore runs on every prefix and is compared with an independent reference fold; one restored server per case is continued to completion. evaluations = histories. Distinct = hash of the action trace. Non-trivial = some prefix holds a job with both terminal and unfinished tasks, or a job with >= 2 submits, or a failure without a start".into(),
            "C11" => "RESTORE engine (same journals and cuts as C10): the first job / worker / queue ids issued after every restore and the server uid are compared with every id the prefix mentions. Non-trivial = the prefix mentions workers, queues or completed jobs (ids of objects that are gone)".into(),
            _ => "RESTORE engine, profile 'prune': histories with PruneJournal requests; a shadow unpruned journal is written from the same event stream with the real writer; Restore(pruned file prefix) is compared with Restore(unpruned prefix) at every record boundary after the last prune (jobs, task outcomes, pending tasks with dependencies, next instance ids, crash counts, queues); the final file is re-read, appended to and pruned again. Non-trivial = the prune removed records and a live job has a started task".into(),
        }
    }
    fn assumptions(&self) -> Vec<String> {
        vec![
            "crash = loss of an arbitrary suffix of the journal file (prefix truncation at record boundaries and inside records); reordered sectors are out of scope".into(),
            "interior cuts are placed after the file header (a torn header can only occur at the very first start of a server)".into(),
            "journals are produced by the SIM engine (same assumptions as the SIM checks)".into(),
            "allocation queue ids: the counter handed to the autoalloc service is compared (queues are not re-created through PBS/Slurm)".into(),
        ]
    }
}

/// C04 = ALLOC engine (deep reachable free-states of the allocator) plus SIM histories (real
/// start / finish / cancel / failure / prefill hand-over orders on real workers, environment
/// variables handed to the task).
#[derive(serde::Serialize, serde::Deserialize, Debug, Clone)]
pub enum C04Case {
    Alloc(alloc::AllocCase),
    Sim(sim::SimCase),
}

pub struct C04Engine;

impl Engine for C04Engine {
    type Case = C04Case;
    fn property(&self) -> &str {
        "C04"
    }
    fn strategy(&self, tier: Tier) -> BoxedStrategy<Self::Case> {
        use proptest::prelude::*;
        let a = alloc::AllocEngine { prop: "C04" }.strategy(tier).prop_map(C04Case::Alloc);
        let s = sim::case_strategy("resources", 80, 90).prop_map(C04Case::Sim);
        prop_oneof![10 => a, 1 => s].boxed()
    }
    fn quick_cases(&self) -> usize {
        6600
    }
    fn thorough_cases(&self) -> usize {
        50_000
    }
    fn run(&self, case: &Self::Case) -> Outcome {
        match case {
            C04Case::Alloc(c) => alloc::AllocEngine { prop: "C04" }.run(c),
            C04Case::Sim(c) => {
                let run = sim::execute(c);
                let mut out = sim::outcome_for("C04", &run);
                let cl = &run.obs.borrow().classes;
                out.nontrivial = cl.contains("concurrent-executions-on-a-worker")
                    && (cl.contains("fractional-allocation-on-a-worker")
                        || cl.contains("prefilled-start"));
                out
            }
        }
    }
    fn rule(&self) -> String {
        format!(
            "{} | 1 of 11 cases is a SIM history (profile 'resources': frequent launch failures, task failures, cancels, time-limit expiries) in which the allocations of all executions live at the same time on each real worker are checked against the same ledger, each grant against the request, HQ_RESOURCE_VALUES_* / HQ_CPUS against the held indices, and after every step the free state of every pool of every live worker plus what its running tasks hold against the worker's resources, index by index (conservation); non-trivial there = at least two concurrent executions on one worker and a fractional allocation or a start from the prefilled backlog",
            alloc::AllocEngine { prop: "C04" }.rule()
        )
    }
    fn assumptions(&self) -> Vec<String> {
        let mut a = alloc::AllocEngine { prop: "C04" }.assumptions();
        a.push("SIM part: fake TaskLauncher; the environment is taken from the real insert_resources_into_env through the verif_resources_env hook".into());
        a
    }
}

fn has(c: &std::collections::BTreeSet<String>, k: &str) -> bool {
    c.contains(k)
}

pub fn sim_engine(prop: &str) -> Option<SimEngine> {
    Some(match prop {
        "C09" => SimEngine {
            prop: "C09",
            profile: "chaos",
            quick: 1500,
            max_len: 90,
            eager_ratio: 70,
            nontrivial: |c| {
                (has(c, "worker-lost") || has(c, "tasks-canceled")) && has(c, "exec")
            },
            rule: "history contains at least one worker loss or cancel and at least one task execution",
        },
        "C01" => SimEngine {
            prop: "C01",
            profile: "lifecycle",
            quick: 1500,
            max_len: 90,
            eager_ratio: 80,
            nontrivial: |c| {
                has(c, "lost-while-running")
                    || has(c, "cancel-running")
                    || has(c, "cancel-assigned")
                    || has(c, "cancel-prefilled")
                    || has(c, "time-limit-expired")
            },
            rule: "a fault or cancel hits a task in a non-waiting state, or a time limit expires",
        },
        "C02" => SimEngine {
            prop: "C02",
            profile: "progress2",
            quick: 1500,
            max_len: 90,
            eager_ratio: 80,
            nontrivial: |c| {
                has(c, "submit-into-open-job")
                    || has(c, "reject")
                    || has(c, "hard-reject")
                    || has(c, "retract-confirmed")
                    || has(c, "worker-lost")
            },
            rule: "two or more submits into one open job, or a reject / retract / worker loss before the drain",
        },
        "C03" => SimEngine {
            prop: "C03",
            profile: "dag",
            quick: 1000,
            max_len: 90,
            eager_ratio: 80,
            nontrivial: |c| has(c, "dependency-abort") || (has(c, "graph-with-edges") && (has(c, "task-failed") || has(c, "tasks-canceled"))),
            rule: "a DAG with at least one edge and a failure or cancel while a dependent is unfinished",
        },
        "C05" => SimEngine {
            prop: "C05",
            profile: "placement2",
            quick: 1500,
            max_len: 90,
            eager_ratio: 90,
            nontrivial: |c| has(c, "multi-placement") || has(c, "mn-placement") || has(c, "redirect"),
            rule: "a round places two or more tasks on a partly busy worker, or a multi-node placement, or a redirect",
        },
        "C06" => SimEngine {
            prop: "C06",
            profile: "steal2",
            quick: 1000,
            max_len: 100,
            eager_ratio: 90,
            nontrivial: |c| has(c, "retract-confirmed") || has(c, "re-execution"),
            rule: "a retract that the worker confirmed, or a re-execution of a task after a loss",
        },
        "C07" => SimEngine {
            prop: "C07",
            profile: "loss",
            quick: 1000,
            max_len: 100,
            eager_ratio: 90,
            nontrivial: |c| has(c, "failure-loss-while-running"),
            rule: "a failure-type worker loss while a task is reported running",
        },
        "C08" => SimEngine {
            prop: "C08",
            profile: "cancel",
            quick: 1500,
            max_len: 90,
            eager_ratio: 80,
            nontrivial: |c| {
                has(c, "cancel-assigned")
                    || has(c, "cancel-prefilled")
                    || has(c, "cancel-retracting")
                    || has(c, "cancel-running")
                    || has(c, "cancel-mn")
            },
            rule: "a cancel hits a task that is assigned / prefilled / retracting / running",
        },
        "C13" => SimEngine {
            prop: "C13",
            profile: "jobs",
            quick: 1500,
            max_len: 90,
            eager_ratio: 50,
            nontrivial: |c| {
                (has(c, "submit-into-open-job") || has(c, "submit-rejected")) && has(c, "exec")
            },
            rule: "a submit into an open job with tasks or a rejected submit, and task progress in the same history",
        },
        "C14" => SimEngine {
            prop: "C14",
            profile: "maxfails",
            quick: 1500,
            max_len: 90,
            eager_ratio: 90,
            nontrivial: |c| has(c, "maxfails-exceeded"),
            rule: "the failure limit of a job is exceeded (sub-classes with running / in-flight siblings are reported in the class histogram)",
        },
        _ => return None,
    })
}

/// Bounded exhaustive enumeration of small scenarios before the random search (see enumsim.rs).
fn systematic_phase(prop: &'static str, tier: Tier, seed: u64) {
    let (budget, depth) = match (tier, prop) {
        (Tier::Quick, _) => (3200u64, 14usize),
        (Tier::Thorough, "C09") => (400_000u64, 24usize),
        (Tier::Thorough, _) => (120_000u64, 24usize),
    };
    let budget = std::env::var("VERIF_ENUM_BUDGET")
        .ok()
        .and_then(|v| v.parse().ok())
        .unwrap_or(budget);
    if budget == 0 {
        return;
    }
    let known: Vec<common::KnownFinding> = common::load_known_findings()
        .into_iter()
        .filter(|k| k.property == prop && k.status == "open")
        .collect();
    let t0 = std::time::Instant::now();
    let threads = std::env::var("VERIF_THREADS")
        .ok()
        .and_then(|v| v.parse().ok())
        .unwrap_or(16usize);
    let (res, known_hits) = enumsim::explore(prop, budget, depth, threads, known);
    let executions: u64 = res.stats.iter().map(|s| s.executions).sum();
    let states: u64 = res.stats.iter().map(|s| s.distinct_states).sum();
    let transitions: u64 = res.stats.iter().map(|s| s.transitions).sum();
    println!(
        "{prop} systematic: {} scenarios, {executions} executions, {states} distinct states at the deepest completed bound, {:.1}s",
        res.stats.len(),
        t0.elapsed().as_secs_f64()
    );
    *common::EXTRA_COVERAGE.lock().unwrap() = Some(serde_json::json!({
        "what": "bounded exhaustive enumeration (stateless depth-first search with visited-state pruning, iterative deepening) of all interleavings of deliveries, scheduler rounds, task ends and a bounded number of faults in small scenarios; 'depth' is the deepest bound explored (completely if exhaustive_to_depth), executions counts re-executions from the scenario start",
        "executions": executions,
        "transitions": transitions,
        "states": states,
        "wall_s": t0.elapsed().as_secs_f64(),
        "scenarios": res.stats,
    }));
    *common::PRE_KNOWN_HITS.lock().unwrap() = known_hits.into_iter().collect();
    if let Some((v, case)) = res.violation {
        let dir = Path::new(common::VERIF_ROOT).join("replays").join(prop).join("found");
        let _ = std::fs::create_dir_all(&dir);
        let body = serde_json::to_string_pretty(&serde_json::json!({
            "property": prop,
            "seed": seed,
            "signature": v.signature,
            "detail": v.detail,
            "case": case,
        }))
        .unwrap();
        let path = dir.join(format!("enum-{:016x}.json", common::hash_str(&body)));
        let _ = std::fs::write(&path, body);
        *common::PRE_VIOLATION.lock().unwrap() = Some((v, path));
    }
}

fn replay_enum(prop: &str, path: &Path) -> i32 {
    let Some(p) = ["C01", "C02", "C03", "C05", "C06", "C07", "C08", "C09", "C13", "C14"]
        .iter()
        .find(|p| **p == prop)
        .copied()
    else {
        eprintln!("property {prop} has no enumeration part");
        return 2;
    };
    let text = std::fs::read_to_string(path).unwrap_or_default();
    let v: serde_json::Value = serde_json::from_str(&text).unwrap_or_default();
    let Ok(case) = serde_json::from_value::<enumsim::EnumCase>(v["case"].clone()) else {
        eprintln!("cannot parse {}", path.display());
        return 2;
    };
    let (run, taken) = enumsim::run_path(p, &case, case.path.len(), |_, _| false);
    println!("{}", serde_json::to_string_pretty(&run.outcome.summary).unwrap_or_default());
    println!("executed {} of {} steps", taken.len(), case.path.len());
    if let Some(v) = run.outcome.violation {
        println!("VIOLATION property={} replay={}", p, path.display());
        println!("  signature: {}\n  detail: {}", v.signature, v.detail);
        1
    } else {
        println!("no violation of {p} in this replay");
        0
    }
}

fn usage() -> ! {
    eprintln!("usage: hqverif check <ID> [quick|thorough] | hqverif replay <ID> <file>");
    std::process::exit(2)
}

fn main() {
    let args: Vec<String> = std::env::args().collect();
    if args.len() < 3 {
        usage();
    }
    let seed: u64 = std::env::var("VERIF_SEED")
        .ok()
        .and_then(|s| s.parse().ok())
        .unwrap_or(1);
    let code = match args[1].as_str() {
        "check" => {
            let tier = match args.get(3).map(|s| s.as_str()).or(std::env::var("VERIF_TIER").ok().as_deref()) {
                Some("thorough") => Tier::Thorough,
                _ => Tier::Quick,
            };
            let prop = args[2].as_str();
            if let Some(e) = sim_engine(prop) {
                if let Some(p) = ["C01", "C02", "C03", "C05", "C06", "C07", "C08", "C09", "C13", "C14"]
                    .iter()
                    .find(|p| **p == prop)
                    .copied()
                {
                    systematic_phase(p, tier, seed);
                }
                let code = run_engine(Arc::new(e), tier, seed);
                code
            } else if prop == "C10" || prop == "C11" || prop == "C12" {
                let p: &'static str = match prop { "C10" => "C10", "C11" => "C11", _ => "C12" };
                run_engine(Arc::new(RestoreEngine { prop: p }), tier, seed)
            } else if prop == "C20" {
                // wiring phase: the real server and all 32 combinations of port, role pair, key
                // and protocol number as connecting peer (exhaustive)
                let t0 = std::time::Instant::now();
                let r = auth::wire_phase(None);
                println!(
                    "C20 wiring: {} connection attempts against the real server, {:.1}s{}",
                    r.attempts.len(),
                    t0.elapsed().as_secs_f64(),
                    r.skipped.as_ref().map(|s| format!(" (incomplete: {s})")).unwrap_or_default()
                );
                *common::EXTRA_COVERAGE.lock().unwrap() = Some(serde_json::json!({
                    "what": "real server (init_hq_server) started with two different keys; every combination of port (client / worker) x role pair x key (client / worker / other / none) x protocol number tried as a connecting peer with the real do_authentication; only the two matching combinations may be accepted",
                    "attempts": r.attempts.len(),
                    "accepted": r.attempts.iter().filter(|(_, ok)| *ok).count(),
                    "exhaustive": r.attempts.len() == 32,
                    "skipped": r.skipped,
                }));
                if let Some((sig, detail, a)) = auth::wire_verdict(&r) {
                    let dir = Path::new(common::VERIF_ROOT).join("replays").join("C20").join("found");
                    let _ = std::fs::create_dir_all(&dir);
                    let body = serde_json::to_string_pretty(&serde_json::json!({
                        "property": "C20", "seed": seed, "signature": sig, "detail": detail,
                        "case": {"wire": [a.0, a.1, a.2, a.3]},
                    }))
                    .unwrap();
                    let path = dir.join(format!("wire-{:016x}.json", common::hash_str(&body)));
                    let _ = std::fs::write(&path, body);
                    *common::PRE_VIOLATION.lock().unwrap() = Some((
                        common::Violation { signature: sig, detail },
                        path,
                    ));
                }
                // connector phase: HyperQueue's client connector against a listener of the harness,
                // all behaviour sequences up to length 3 (exhaustive, 310 cases)
                if common::PRE_VIOLATION.lock().unwrap().is_none() {
                    let t1 = std::time::Instant::now();
                    let cases = auth::connector_cases();
                    let mut done = 0usize;
                    let mut skipped: Option<String> = None;
                    for c in &cases {
                        match auth::run_connector_case(c) {
                            Ok((ok, seen)) => {
                                done += 1;
                                if let Some((sig, detail)) = auth::connector_verdict(c, ok, seen) {
                                    let dir = Path::new(common::VERIF_ROOT).join("replays").join("C20").join("found");
                                    let _ = std::fs::create_dir_all(&dir);
                                    let body = serde_json::to_string_pretty(&serde_json::json!({
                                        "property": "C20", "seed": seed, "signature": sig, "detail": detail,
                                        "case": {"connector": [c.0, c.1]},
                                    }))
                                    .unwrap();
                                    let path = dir.join(format!("connector-{:016x}.json", common::hash_str(&body)));
                                    let _ = std::fs::write(&path, body);
                                    *common::PRE_VIOLATION.lock().unwrap() =
                                        Some((common::Violation { signature: sig, detail }, path));
                                    break;
                                }
                            }
                            Err(e) => {
                                skipped = Some(e);
                                break;
                            }
                        }
                    }
                    println!(
                        "C20 connector: {done} of {} behaviour sequences against the real client connector, {:.1}s{}",
                        cases.len(),
                        t1.elapsed().as_secs_f64(),
                        skipped.as_ref().map(|s| format!(" (incomplete: {s})")).unwrap_or_default()
                    );
                    if let Some(x) = common::EXTRA_COVERAGE.lock().unwrap().as_mut() {
                        x["connector"] = serde_json::json!({
                            "what": "ClientSession::connect_to_server against a listener of the harness: per connection the listener closes, sends garbage, or answers as an honest server without a key / with the client's key / with another key; all sequences up to length 3 for a client with and without a key; the client may accept only a connection on which the listener proved the client's configuration, and accepts an undisturbed matching exchange",
                            "cases": done,
                            "exhaustive": done == cases.len(),
                            "skipped": skipped,
                        });
                    }
                }
                // worker connector phase: tako's connect_to_server_and_authenticate against a
                // listener of the harness (16 cases, exhaustive)
                if common::PRE_VIOLATION.lock().unwrap().is_none() {
                    let cases = auth::worker_connector_cases();
                    let mut done = 0usize;
                    let mut skipped: Option<String> = None;
                    for c in &cases {
                        match auth::run_worker_connector_case(c) {
                            Ok(ok) => {
                                done += 1;
                                if let Some((sig, detail)) = auth::worker_connector_verdict(c, ok) {
                                    let dir = Path::new(common::VERIF_ROOT).join("replays").join("C20").join("found");
                                    let _ = std::fs::create_dir_all(&dir);
                                    let body = serde_json::to_string_pretty(&serde_json::json!({
                                        "property": "C20", "seed": seed, "signature": sig, "detail": detail,
                                        "case": {"worker_connector": [c.0, c.1]},
                                    }))
                                    .unwrap();
                                    let path = dir.join(format!("wconnector-{:016x}.json", common::hash_str(&body)));
                                    let _ = std::fs::write(&path, body);
                                    *common::PRE_VIOLATION.lock().unwrap() =
                                        Some((common::Violation { signature: sig, detail }, path));
                                    break;
                                }
                            }
                            Err(e) => {
                                skipped = Some(e);
                                break;
                            }
                        }
                    }
                    println!(
                        "C20 worker connector: {done} of {} listener behaviours against the real worker connector{}",
                        cases.len(),
                        skipped.as_ref().map(|s| format!(" (incomplete: {s})")).unwrap_or_default()
                    );
                    if let Some(x) = common::EXTRA_COVERAGE.lock().unwrap().as_mut() {
                        x["worker_connector"] = serde_json::json!({
                            "what": "tako::comm::connect_to_server_and_authenticate (called by the worker's registration loop for every attempt) against a listener of the harness that closes, sends garbage, or answers as an honest endpoint without a key / with the worker's key / with another key / with the roles of the client endpoint / with another protocol number; worker with and without a key; only the listener that proves key, roles and protocol may be accepted, and that one is accepted",
                            "cases": done,
                            "exhaustive": done == cases.len(),
                            "skipped": skipped,
                        });
                    }
                }
                run_engine(Arc::new(auth::AuthEngine), tier, seed)
            } else if prop == "C19" {
                run_engine(Arc::new(stream::StreamEngine), tier, seed)
            } else if prop == "C15" {
                run_engine(Arc::new(sched::SchedEngine), tier, seed)
            } else if prop == "C17" {
                run_engine(Arc::new(autoalloc::AutoEngine { prop: "C17" }), tier, seed)
            } else if prop == "C18" {
                run_engine(Arc::new(autoalloc::AutoEngine { prop: "C18" }), tier, seed)
            } else if prop == "C04" {
                run_engine(Arc::new(C04Engine), tier, seed)
            } else if prop == "C16" {
                run_engine(Arc::new(alloc::AllocEngine { prop: "C16" }), tier, seed)
            } else {
                eprintln!("unknown property {prop}");
                2
            }
        }
        "replay" => {
            if args.len() < 4 {
                usage();
            }
            let prop = args[2].as_str();
            let path = Path::new(&args[3]);
            let is_enum = std::fs::read_to_string(path)
                .ok()
                .and_then(|t| serde_json::from_str::<serde_json::Value>(&t).ok())
                .is_some_and(|v| v["case"].get("scenario").is_some());
            let wire: Option<auth::WireAttempt> = std::fs::read_to_string(path)
                .ok()
                .and_then(|t| serde_json::from_str::<serde_json::Value>(&t).ok())
                .and_then(|v| serde_json::from_value::<(u8, u8, u8, u32)>(v["case"]["wire"].clone()).ok());
            let connector: Option<auth::ConnectorCase> = std::fs::read_to_string(path)
                .ok()
                .and_then(|t| serde_json::from_str::<serde_json::Value>(&t).ok())
                .and_then(|v| serde_json::from_value::<(bool, Vec<u8>)>(v["case"]["connector"].clone()).ok());
            let wconnector: Option<auth::WorkerConnectorCase> = std::fs::read_to_string(path)
                .ok()
                .and_then(|t| serde_json::from_str::<serde_json::Value>(&t).ok())
                .and_then(|v| serde_json::from_value::<(bool, u8)>(v["case"]["worker_connector"].clone()).ok());
            if let Some(c) = wconnector {
                match auth::run_worker_connector_case(&c) {
                    Ok(ok) => {
                        if let Some((sig, detail)) = auth::worker_connector_verdict(&c, ok) {
                            println!("VIOLATION property=C20 replay={}", path.display());
                            println!("  signature: {sig}\n  detail: {detail}");
                            1
                        } else {
                            println!("no violation of C20 in this replay (worker ok={ok})");
                            0
                        }
                    }
                    Err(e) => {
                        println!("INCONCLUSIVE: {e}");
                        2
                    }
                }
            } else if let Some(c) = connector {
                match auth::run_connector_case(&c) {
                    Ok((ok, seen)) => {
                        if let Some((sig, detail)) = auth::connector_verdict(&c, ok, seen) {
                            println!("VIOLATION property=C20 replay={}", path.display());
                            println!("  signature: {sig}\n  detail: {detail}");
                            1
                        } else {
                            println!("no violation of C20 in this replay (client ok={ok}, {seen} connections)");
                            0
                        }
                    }
                    Err(e) => {
                        println!("INCONCLUSIVE: {e}");
                        2
                    }
                }
            } else if let Some(a) = wire {
                let r = auth::wire_phase(Some(a));
                if let Some((sig, detail, _)) = auth::wire_verdict(&r) {
                    println!("VIOLATION property=C20 replay={}", path.display());
                    println!("  signature: {sig}\n  detail: {detail}");
                    1
                } else {
                    println!("no violation of C20 in this replay ({} attempts{})", r.attempts.len(), r.skipped.map(|s| format!(", incomplete: {s}")).unwrap_or_default());
                    0
                }
            } else if is_enum {
                replay_enum(prop, path)
            } else if let Some(e) = sim_engine(prop) {
                replay_engine(&e, path)
            } else if prop == "C10" || prop == "C11" || prop == "C12" {
                let p: &'static str = match prop { "C10" => "C10", "C11" => "C11", _ => "C12" };
                replay_engine(&RestoreEngine { prop: p }, path)
            } else if prop == "C20" {
                replay_engine(&auth::AuthEngine, path)
            } else if prop == "C19" {
                replay_engine(&stream::StreamEngine, path)
            } else if prop == "C15" {
                replay_engine(&sched::SchedEngine, path)
            } else if prop == "C17" {
                replay_engine(&autoalloc::AutoEngine { prop: "C17" }, path)
            } else if prop == "C18" {
                replay_engine(&autoalloc::AutoEngine { prop: "C18" }, path)
            } else if prop == "C04" {
                replay_engine(&C04Engine, path)
            } else if prop == "C16" {
                replay_engine(&alloc::AllocEngine { prop: "C16" }, path)
            } else {
                eprintln!("unknown property {prop}");
                2
            }
        }
        _ => usage(),
    };
    sim::cleanup_thread_dir();
    std::process::exit(code);
}
