//! Engine SCHED (C15): one scheduling round of the real MILP scheduler on generated small
//! clusters and ready queues; validity predicate over (dispatched, remaining) exactly as the
//! statement phrases it.

use std::cell::RefCell;
use std::collections::{BTreeMap, BTreeSet};
use std::rc::Rc;

use hyperqueue::transfer::messages::{FromClientMessage, ToClientMessage};
use proptest::prelude::*;
use serde::{Deserialize, Serialize};
use smallvec::smallvec;
use tako::gateway::{ResourceRequest, ResourceRequestEntry, ResourceRequestVariants};
use tako::resources::{
    AllocationRequest, ResourceAmount, ResourceDescriptor, ResourceDescriptorItem,
    ResourceDescriptorKind,
};
use tako::verif::{CoreSnapshot, SchedOutcome, TaskStateSnap};
use tako::{TaskId, WorkerId};

use crate::common::{Engine, Outcome, Tier, Violation, hash_str};
use crate::sim::launcher::LaunchShared;
use crate::sim::obs::{ToW, summarize_to_worker};
use crate::sim::palette;
use crate::sim::world::{Shared, World, WorldParams};

#[derive(Serialize, Deserialize, Debug, Clone)]
pub struct SchedCase {
    /// (cpus, gpus)
    pub workers: Vec<(u8, u8)>,
    /// (cpus in quarter units, gpus)
    pub classes: Vec<(u8, u8)>,
    /// tasks started before the round: (class, count)
    pub pre: Vec<(u8, u8)>,
    /// ready tasks: (class, priority level, count)
    pub ready: Vec<(u8, u8, u8)>,
}

pub fn case_strategy(core_domain: bool) -> BoxedStrategy<SchedCase> {
    let (max_w, max_c) = if core_domain { (2usize, 2usize) } else { (3, 4) };
    let workers = if core_domain {
        // one worker
        (1u8..9, 0u8..3).prop_map(|w| vec![w]).boxed()
    } else {
        proptest::collection::vec((1u8..9, 0u8..3), 1..=max_w).boxed()
    };
    (
        workers,
        proptest::collection::vec(
            (prop_oneof![Just(2u8), Just(4), Just(4), Just(8), Just(12), Just(16), Just(32)], 0u8..3),
            1..=max_c,
        ),
        proptest::collection::vec((0u8..4, 1u8..4), 0..3),
        proptest::collection::vec((0u8..4, 0u8..8, 1u8..5), 1..8),
    )
        .prop_map(|(workers, classes, pre, ready)| SchedCase {
            workers,
            classes,
            pre,
            ready,
        })
        .boxed()
}

fn class_request(c: (u8, u8)) -> ResourceRequestVariants {
    let mut entries = vec![ResourceRequestEntry {
        resource: "cpus".to_string(),
        policy: AllocationRequest::Compact(ResourceAmount::new(
            (c.0 / 4) as u32,
            (c.0 % 4) as u32 * 2500,
        )),
    }];
    if c.1 > 0 {
        entries.push(ResourceRequestEntry {
            resource: "gpus".to_string(),
            policy: AllocationRequest::Compact(ResourceAmount::new_units(c.1 as u32)),
        });
    }
    ResourceRequestVariants::new(smallvec![ResourceRequest {
        n_nodes: 0,
        resources: entries.into_iter().collect(),
        min_time: std::time::Duration::ZERO,
        weight: Default::default(),
    }])
}

pub struct SchedRun {
    pub alarm: Option<(String, String)>,
    pub classes: Vec<String>,
    pub trace: Vec<String>,
    pub skipped: Option<String>,
}

async fn request(world: &mut World, msg: FromClientMessage) -> Option<ToClientMessage> {
    let c = world.idle_client();
    world.send_request(c, msg, "rq", false);
    for _ in 0..20 {
        let msgs = world.poll_client(c);
        world.clients[c].pending = None;
        if let Some(m) = msgs.into_iter().find(|m| !matches!(m, ToClientMessage::Event(_))) {
            return Some(m);
        }
        world.journal_drain();
        world.settle().await;
        world.clients[c].pending = Some(crate::sim::world::PendingRequest {
            kind: "rq".into(),
            sent_step: 0,
            stream: false,
            sel: None,
            unfinished_at_send: Default::default(),
        });
    }
    None
}

fn req_vector(snap: &CoreSnapshot, rq_id: u32) -> Vec<u64> {
    let mut v = vec![0u64; snap.resource_names.len().max(2)];
    if let Some(rqv) = snap.rq_map.get(rq_id as usize) {
        for e in rqv.requests()[0].entries() {
            let i = e.resource_id.as_num() as usize;
            if i >= v.len() {
                v.resize(i + 1, 0);
            }
            v[i] = e
                .request
                .amount_or_none_if_all()
                .map(|a| a.total_fractions())
                .unwrap_or(u64::MAX);
        }
    }
    v
}

fn fits(req: &[u64], free: &[i64]) -> bool {
    req.iter()
        .enumerate()
        .all(|(i, r)| *r == 0 || (*r as i64) <= free.get(i).copied().unwrap_or(0))
}

pub fn execute(case: &SchedCase) -> SchedRun {
    let mut run = SchedRun {
        alarm: None,
        classes: Vec::new(),
        trace: Vec::new(),
        skipped: None,
    };
    let rt = tokio::runtime::Builder::new_current_thread()
        .enable_time()
        .start_paused(true)
        .build()
        .unwrap();
    let local = tokio::task::LocalSet::new();
    let n_classes = case.classes.len().max(1);
    rt.block_on(local.run_until(async {
        let dir = crate::sim::thread_dir();
        if let Ok(rd) = std::fs::read_dir(&dir) {
            for e in rd.flatten() {
                if e.path().is_file() {
                    let _ = std::fs::remove_file(e.path());
                }
            }
        }
        let params = WorldParams { dir, prefill: None };
        tako::verif::clock::set_offset(std::time::Duration::ZERO);
        let launch = Rc::new(RefCell::new(LaunchShared::default()));
        let shared = Rc::new(RefCell::new(Shared {
            step: 0,
            pcalls: Vec::new(),
        }));
        let mut world = World::new(&params, launch, shared);
        world.settle().await;
        // workers
        for (i, (cpus, gpus)) in case.workers.iter().enumerate() {
            let mut items = vec![ResourceDescriptorItem::range("cpus", 0, *cpus as u32 - 1)];
            if *gpus > 0 {
                items.push(ResourceDescriptorItem {
                    name: "gpus".to_string(),
                    kind: ResourceDescriptorKind::list(
                        (0..*gpus).map(|g| format!("g{g}")).collect(),
                    )
                    .unwrap(),
                });
            }
            let desc = ResourceDescriptor::new(items, Default::default());
            let cfg = palette::worker_configuration(desc, "a", None, i + 1);
            world.connect_worker(cfg, 0);
        }
        world.settle().await;
        // earlier round: start some tasks so that workers are partly busy
        for (class, count) in &case.pre {
            let c = case.classes[*class as usize % n_classes];
            let ids: Vec<u32> = (0..*count as u32).collect();
            let req = palette::array_submit(
                None,
                palette::int_array(&ids),
                None,
                class_request(c),
                palette::task_description(0, Default::default(), None),
                None,
                "pre",
            );
            let _ = request(&mut world, FromClientMessage::Submit(req, None)).await;
        }
        if !case.pre.is_empty() {
            for _ in 0..5 {
                let now = world.now();
                if world.server.run_scheduling(now) == SchedOutcome::NotRequested {
                    break;
                }
            }
            world.settle().await;
            // deliver everything both ways until quiet (tasks start, bodies never end)
            for _ in 0..200 {
                let ids: Vec<WorkerId> = world.workers.keys().copied().collect();
                let mut moved = false;
                for id in ids {
                    while world.deliver_to_worker(id).is_some() {
                        moved = true;
                    }
                    world.settle().await;
                    while world.deliver_to_server(id).is_some() {
                        moved = true;
                    }
                }
                world.settle().await;
                if !moved {
                    break;
                }
            }
            if world.server.scheduling_requested() {
                let now = world.now();
                world.server.run_scheduling(now);
                world.settle().await;
            }
        }
        // drop messages produced so far from the "new" logs
        for w in world.workers.values_mut() {
            w.new_q.clear();
        }
        // the ready queue
        let mut prio_of: BTreeMap<TaskId, i32> = BTreeMap::new();
        for (class, prio, count) in &case.ready {
            let c = case.classes[*class as usize % n_classes];
            let ids: Vec<u32> = (0..*count as u32).collect();
            let req = palette::array_submit(
                None,
                palette::int_array(&ids),
                None,
                class_request(c),
                palette::task_description(*prio as i32, Default::default(), None),
                None,
                "ready",
            );
            if let Some(ToClientMessage::SubmitResponse(
                hyperqueue::transfer::messages::SubmitResponse::Ok { job, .. },
            )) = request(&mut world, FromClientMessage::Submit(req, None)).await
            {
                for (id, _) in &job.tasks {
                    prio_of.insert(TaskId::new(job.info.id, *id), *prio as i32);
                }
            }
        }
        world.settle().await;
        for w in world.workers.values_mut() {
            w.new_q.clear();
        }
        let before = world.snapshot();
        let now = world.now();
        let outcome = world.server.run_scheduling(now);
        world.settle().await;
        if outcome != SchedOutcome::Done {
            run.skipped = Some(format!("solve not optimal: {outcome:?}"));
            return;
        }
        let after = world.snapshot();
        // dispatched this round
        let mut dispatched: Vec<(TaskId, WorkerId)> = Vec::new();
        for w in world.workers.values() {
            for data in &w.new_q {
                if let Ok(m) = tako::comm::deserialize::<
                    tako::internal::messages::worker::ToWorkerMessage,
                >(data)
                {
                    if let ToW::Compute(items) = summarize_to_worker(&m) {
                        for it in items {
                            if it.variant.is_some() {
                                dispatched.push((it.task, w.id));
                            } else {
                                run.classes.push("prefill".into());
                            }
                        }
                    }
                }
            }
        }
        let task_before: BTreeMap<TaskId, &tako::verif::TaskSnap> =
            before.tasks.iter().map(|t| (t.id, t)).collect();
        let remaining: Vec<&tako::verif::TaskSnap> = after
            .tasks
            .iter()
            .filter(|t| matches!(t.state, TaskStateSnap::Waiting { unfinished_deps: 0 }))
            .collect();
        // free resources before the round, from task states
        let nres = before.resource_names.len().max(2);
        let mut free_before: BTreeMap<WorkerId, Vec<i64>> = BTreeMap::new();
        let mut total: BTreeMap<WorkerId, Vec<i64>> = BTreeMap::new();
        for w in &before.workers {
            let mut f: Vec<i64> = (0..nres)
                .map(|i| w.total.get(i).copied().unwrap_or(0) as i64)
                .collect();
            total.insert(w.id, f.clone());
            for t in &before.tasks {
                let on = match &t.state {
                    TaskStateSnap::Assigned { worker_id, .. }
                    | TaskStateSnap::Running { worker_id, .. } => *worker_id == w.id,
                    _ => false,
                };
                if on {
                    for (i, a) in req_vector(&before, t.rq_id).iter().enumerate() {
                        if i < f.len() {
                            f[i] -= *a as i64;
                        }
                    }
                }
            }
            free_before.insert(w.id, f);
        }
        let prio = |t: &TaskId| -> u64 { task_before.get(t).map(|x| x.priority).unwrap_or(0) };
        let levels: BTreeSet<u64> = before
            .tasks
            .iter()
            .filter(|t| matches!(t.state, TaskStateSnap::Waiting { unfinished_deps: 0 }))
            .map(|t| t.priority)
            .collect();
        if levels.len() >= 2 && !remaining.is_empty() {
            let min_rem = remaining.iter().map(|t| t.priority).max().unwrap_or(0);
            if dispatched.iter().any(|(t, _)| prio(t) < min_rem) {
                run.classes.push("lower-dispatched-while-higher-waits".into());
            }
        }
        if before.tasks.iter().any(|t| matches!(t.state, TaskStateSnap::Running { .. })) {
            run.classes.push("partly-busy".into());
        }
        run.trace.push(format!(
            "workers {:?} classes {:?} pre {:?} ready {:?} -> dispatched {:?}, {} remaining",
            case.workers,
            case.classes,
            case.pre,
            case.ready,
            dispatched,
            remaining.len()
        ));
        // ---- the predicate
        for (l, w) in &dispatched {
            let pl = prio(l);
            for h in &remaining {
                if h.priority <= pl {
                    continue;
                }
                let req_h = req_vector(&before, h.rq_id);
                let mut free2 = free_before[w].clone();
                for (t, w2) in &dispatched {
                    if w2 == w && prio(t) >= h.priority {
                        let rq = task_before.get(t).map(|x| x.rq_id).unwrap_or(0);
                        for (i, a) in req_vector(&before, rq).iter().enumerate() {
                            if i < free2.len() {
                                free2[i] -= *a as i64;
                            }
                        }
                    }
                }
                if !fits(&req_h, &free2) {
                    continue;
                }
                // exception: another worker could run h but is too busy to start it now
                let mut excused = false;
                for (w2, tot) in &total {
                    if w2 == w {
                        continue;
                    }
                    if !fits(&req_h, tot) {
                        continue;
                    }
                    let mut f2 = free_before[w2].clone();
                    for (t, ww) in &dispatched {
                        if ww == w2 && prio(t) >= h.priority {
                            let rq = task_before.get(t).map(|x| x.rq_id).unwrap_or(0);
                            for (i, a) in req_vector(&before, rq).iter().enumerate() {
                                if i < f2.len() {
                                    f2[i] -= *a as i64;
                                }
                            }
                        }
                    }
                    if !fits(&req_h, &f2) {
                        excused = true;
                    }
                }
                if excused {
                    run.classes.push("exception-other-worker-busy".into());
                    continue;
                }
                let classes_involved: BTreeSet<u32> = before
                    .tasks
                    .iter()
                    .filter(|t| {
                        matches!(t.state, TaskStateSnap::Waiting { unfinished_deps: 0 })
                    })
                    .map(|t| t.rq_id)
                    .collect();
                let domain = if classes_involved.len() >= 3 {
                    ">=3 request classes"
                } else if before.workers.len() >= 2 {
                    ">=2 workers"
                } else {
                    "one worker, <=2 request classes"
                };
                let l_rq = task_before.get(l).map(|x| x.rq_id).unwrap_or(0);
                let low_workers: BTreeSet<WorkerId> = dispatched
                    .iter()
                    .filter(|(t, _)| {
                        task_before.get(t).map(|x| x.rq_id) == Some(l_rq) && prio(t) < h.priority
                    })
                    .map(|(_, w)| *w)
                    .collect();
                let same_class = l_rq == h.rq_id;
                let busy = before
                    .tasks
                    .iter()
                    .any(|t| matches!(t.state, TaskStateSnap::Running { .. }));
                let shape = format!(
                    "workers={} classes={} low_class_on_workers={} busy={busy}",
                    before.workers.len(),
                    classes_involved.len(),
                    low_workers.len(),
                );
                // ---- which limits does the documented encoding put on the lower class here?
                // (solver.rs: for the cut of class l below the waiting task's level and the
                //  blocker class h, on every worker capable of h: #l <= cut + gap if gap > 0,
                //  and the sum of #l over the workers without a gap <= cut).  Recomputed here
                //  from the snapshot, independently of batches.rs / gap.rs.
                let req_l = req_vector(&before, l_rq);
                let cut_l = before
                    .tasks
                    .iter()
                    .filter(|t| {
                        matches!(t.state, TaskStateSnap::Waiting { unfinished_deps: 0 })
                            && t.rq_id == l_rq
                            && t.priority > pl
                    })
                    .count() as i64;
                let max_count = |req: &[u64], free: &[i64]| -> i64 {
                    req.iter()
                        .enumerate()
                        .filter(|(_, a)| **a > 0)
                        .map(|(i, a)| free.get(i).copied().unwrap_or(0).max(0) / *a as i64)
                        .min()
                        .unwrap_or(0)
                };
                let mut within = true;
                let mut zero_sum = 0i64;
                let mut limits: Vec<String> = Vec::new();
                for (w2, tot) in &total {
                    if !fits(&req_h, tot) {
                        continue;
                    }
                    let cnt_h = max_count(&req_h, tot);
                    let mut free: Vec<i64> = tot
                        .iter()
                        .enumerate()
                        .map(|(i, a)| {
                            (*a - cnt_h * req_h.get(i).copied().unwrap_or(0) as i64).max(0)
                        })
                        .collect();
                    for t in &before.tasks {
                        let on = match &t.state {
                            TaskStateSnap::Assigned { worker_id, .. }
                            | TaskStateSnap::Running { worker_id, .. } => worker_id == w2,
                            _ => false,
                        };
                        if on && t.rq_id != h.rq_id {
                            for (i, a) in req_vector(&before, t.rq_id).iter().enumerate() {
                                if i < free.len() {
                                    free[i] = (free[i] - *a as i64).max(0);
                                }
                            }
                        }
                    }
                    let gap = max_count(&req_l, &free);
                    let n_l = dispatched
                        .iter()
                        .filter(|(t, ww)| {
                            ww == w2 && task_before.get(t).map(|x| x.rq_id) == Some(l_rq)
                        })
                        .count() as i64;
                    if gap > 0 {
                        limits.push(format!("w{w2}: #l={n_l} <= cut {cut_l} + gap {gap}"));
                        if n_l > cut_l + gap {
                            within = false;
                        }
                    } else {
                        zero_sum += n_l;
                        limits.push(format!("w{w2}: #l={n_l}, no gap"));
                    }
                }
                if zero_sum > cut_l {
                    within = false;
                }
                let sig = if same_class {
                    "priority inversion within one request class".to_string()
                } else if !within {
                    "priority inversion between request classes beyond the cut+gap limits of the encoding".to_string()
                } else {
                    format!("priority inversion between request classes within the per-worker cut+gap limits; {domain}")
                };
                let shape = format!("{shape} limits=[{}] no-gap-sum={zero_sum}", limits.join("; "));
                // keep scanning: an inversion beyond the limits (or inside a class) is
                // preferred over one the known findings describe
                let weak = sig.contains("within the per-worker cut+gap limits");
                if let Some((old, _)) = &run.alarm {
                    let old_weak = old.contains("within the per-worker cut+gap limits");
                    if !old_weak || weak {
                        continue;
                    }
                }
                run.alarm = Some((
                    sig,
                    format!(
                        "[{shape}] lower-priority task {l} (priority {}) dispatched to w{w} while higher-priority ready task {} (priority {}, request {:?}) stays undispatched although it fits w{w} without the lower-priority tasks dispatched there (free before {:?}); no other worker is capable-but-busy. case: {:?}",
                        pl,
                        h.id,
                        h.priority,
                        req_h,
                        free_before[w],
                        case
                    ),
                ));
            }
        }
        let _ = prio_of;
    }));
    run
}

pub struct SchedEngine;

impl Engine for SchedEngine {
    type Case = SchedCase;
    fn hang_limit_secs(&self) -> u64 {
        // cases of this engine take milliseconds
        90
    }
    fn property(&self) -> &str {
        "C15"
    }
    fn strategy(&self, _tier: Tier) -> BoxedStrategy<Self::Case> {
        if std::env::var("VERIF_C15_CORE_ONLY").is_ok() {
            return case_strategy(true);
        }
        prop_oneof![1 => case_strategy(true), 1 => case_strategy(false)].boxed()
    }
    fn quick_cases(&self) -> usize {
        16_000
    }
    fn thorough_cases(&self) -> usize {
        400_000
    }
    fn run(&self, case: &Self::Case) -> Outcome {
        crate::sim::install_panic_hook();
        crate::sim::PANICS.with(|p| p.borrow_mut().clear());
        let r = std::panic::catch_unwind(std::panic::AssertUnwindSafe(|| execute(case)));
        let mut out = Outcome::default();
        match r {
            Ok(run) => {
                out.trace_hash = hash_str(&format!("{case:?}"));
                out.classes = run.classes.clone();
                out.classes.sort();
                out.classes.dedup();
                if let Some(s) = &run.skipped {
                    out.classes.push(format!("skipped: {s}"));
                }
                out.nontrivial = run
                    .classes
                    .iter()
                    .any(|c| c == "lower-dispatched-while-higher-waits");
                out.summary = serde_json::json!({ "round": run.trace });
                if let Some((sig, detail)) = run.alarm {
                    out.violation = Some(Violation {
                        signature: sig,
                        detail,
                    });
                }
            }
            Err(_) => {
                let p = crate::sim::PANICS.with(|p| p.borrow().last().cloned());
                let (loc, msg) = p.unwrap_or_default();
                out.aborted = Some(format!("panic at {loc}: {msg}"));
            }
        }
        out
    }
    fn rule(&self) -> String {
        "SCHED engine: 1-3 workers (1-8 cpus, 0-2 gpus), 1-4 single-variant single-node request classes (cpus 0.5-8, gpus 0-2), optionally tasks started in an earlier round (partly busy workers), 1-7 ready batches (class, one of 8 priority levels, 1-4 tasks), default thresholds and min-utilization; one scheduling round of the real scheduler through the server API; only rounds whose solve completed optimally are judged. Half of the cases come from the core domain (<=2 classes, <=2 workers). Distinct = hash of the case. Non-trivial = at least two priority levels, a task left undispatched and a lower-priority task dispatched".into()
    }
    fn assumptions(&self) -> Vec<String> {
        vec![
            "'too busy' in the exception clause = the higher-priority task does not fit the other worker's free resources before the round minus what was dispatched there with at least its priority".into(),
            "counter-examples outside the core domain are announced by the property text itself and listed as known findings by domain".into(),
        ]
    }
}
