//! Engine RESTORE (C10, C11, C12): journals produced by SIM through the real journal process are
//! cut at every record boundary (and at interior offsets), the real restore is run on every
//! prefix and compared with an independent reference fold of the recorded events.

use std::cell::RefCell;
use std::collections::{BTreeMap, BTreeSet};
use std::path::{Path, PathBuf};
use std::rc::Rc;

use hyperqueue::server::event::Event;
use hyperqueue::server::event::journal::{JournalReader, JournalWriter};
use hyperqueue::server::event::payload::EventPayload;
use hyperqueue::transfer::messages::{JobTaskDescription, SubmitRequest};
use tako::{JobId, TaskId, WorkerId};

use crate::sim::launcher::LaunchShared;
use crate::sim::monitors::{Kind, Monitors, job_views};
use crate::sim::obs::{EpochObs, Obs};
use crate::sim::world::{RestoreInfo, Shared, World, WorldParams};
use crate::sim::{Limits, Sim, profile_weights};

#[derive(Debug, Clone)]
pub struct TaskF {
    pub kind: Kind,
    pub deps: Vec<u32>,
    pub last_instance: Option<u32>,
    pub crash_count: u32,
    pub running_on: Vec<WorkerId>,
    /// a non-root worker of the task was lost (documented leniency for crash counts)
    pub lenient: bool,
}

#[derive(Debug, Clone, Default)]
pub struct JobF {
    pub open: bool,
    pub tasks: BTreeMap<u32, TaskF>,
    pub n_submits: u32,
}

/// Reference model of what a journal prefix durably records (written from the event
/// documentation in payload.rs, independent of restore.rs).
#[derive(Debug, Clone, Default)]
pub struct Folded {
    pub jobs: BTreeMap<JobId, JobF>,
    pub completed_jobs: BTreeSet<JobId>,
    pub max_job_id: u32,
    pub max_worker_id: u32,
    pub max_queue_id: u32,
    pub queues: BTreeSet<u32>,
    /// live queue -> (parameters as JSON, resources of the last worker that connected from one
    /// of its allocations, as JSON)
    pub queue_details: BTreeMap<u32, (String, Option<String>)>,
    pub alloc_queue: BTreeMap<String, u32>,
    pub queue_worker_res: BTreeMap<u32, String>,
    pub server_uid: Option<String>,
    pub has_terminal_and_not: bool,
    pub multi_submit: bool,
    pub fail_without_start: bool,
    pub restarts: u32,
}

pub fn fold(events: &[Event]) -> Folded {
    let mut f = Folded::default();
    for ev in events {
        match &ev.payload {
            EventPayload::ServerStart { server_uid } => {
                if f.server_uid.is_none() {
                    f.server_uid = Some(server_uid.clone());
                }
                f.restarts += 1;
                // a restart forgets which tasks were running: they are waiting again
                for job in f.jobs.values_mut() {
                    for t in job.tasks.values_mut() {
                        if t.kind == Kind::Running {
                            t.kind = Kind::Waiting;
                            t.running_on.clear();
                        }
                    }
                }
            }
            EventPayload::WorkerConnected(id, cfg) => {
                f.max_worker_id = f.max_worker_id.max(id.as_num());
                use hyperqueue::common::manager::info::GetManagerInfo;
                if let Some(info) = cfg.get_manager_info() {
                    if let Some(q) = f.alloc_queue.get(&info.allocation_id) {
                        f.queue_worker_res
                            .insert(*q, serde_json::to_string(&cfg.resources).unwrap_or_default());
                    }
                }
            }
            EventPayload::WorkerLost(id, reason) => {
                f.max_worker_id = f.max_worker_id.max(id.as_num());
                for job in f.jobs.values_mut() {
                    for t in job.tasks.values_mut() {
                        if t.kind == Kind::Running && t.running_on.contains(id) {
                            if t.running_on.first() == Some(id) {
                                t.kind = Kind::Waiting;
                                t.running_on.clear();
                                if reason.is_failure() {
                                    t.crash_count += 1;
                                }
                            } else {
                                t.lenient = true;
                            }
                        }
                    }
                }
            }
            EventPayload::Submit {
                job_id,
                closed_job,
                serialized_desc,
            } => {
                f.max_job_id = f.max_job_id.max(job_id.as_num());
                let Ok(req) = serialized_desc.deserialize() else {
                    continue;
                };
                let req: SubmitRequest = req;
                if *closed_job {
                    f.jobs.insert(*job_id, JobF::default());
                }
                let Some(job) = f.jobs.get_mut(job_id) else {
                    continue;
                };
                job.n_submits += 1;
                if job.n_submits >= 2 {
                    f.multi_submit = true;
                }
                let mut add = |id: u32, deps: Vec<u32>| {
                    job.tasks.insert(
                        id,
                        TaskF {
                            kind: Kind::Waiting,
                            deps,
                            last_instance: None,
                            crash_count: 0,
                            running_on: Vec::new(),
                            lenient: false,
                        },
                    );
                };
                match &req.submit_desc.task_desc {
                    JobTaskDescription::Array { ids, .. } => {
                        for id in ids.iter() {
                            add(id, Vec::new());
                        }
                    }
                    JobTaskDescription::Graph { tasks, .. } => {
                        for t in tasks {
                            add(
                                t.id.as_num(),
                                t.task_deps.iter().map(|d| d.as_num()).collect(),
                            );
                        }
                    }
                }
            }
            EventPayload::JobOpen(job_id, _) => {
                f.max_job_id = f.max_job_id.max(job_id.as_num());
                f.jobs.insert(
                    *job_id,
                    JobF {
                        open: true,
                        ..Default::default()
                    },
                );
            }
            EventPayload::JobClose(job_id) => {
                if let Some(j) = f.jobs.get_mut(job_id) {
                    j.open = false;
                }
            }
            EventPayload::JobCompleted(job_id) => {
                f.jobs.remove(job_id);
                f.completed_jobs.insert(*job_id);
            }
            EventPayload::TaskStarted {
                task_id,
                instance_id,
                worker_ids,
                ..
            } => {
                for w in worker_ids {
                    f.max_worker_id = f.max_worker_id.max(w.as_num());
                }
                if let Some(t) = f
                    .jobs
                    .get_mut(&task_id.job_id())
                    .and_then(|j| j.tasks.get_mut(&task_id.job_task_id().as_num()))
                {
                    t.kind = Kind::Running;
                    t.last_instance = Some(instance_id.as_num());
                    t.running_on = worker_ids.to_vec();
                }
            }
            EventPayload::TaskFinished { task_id } => {
                if let Some(t) = f
                    .jobs
                    .get_mut(&task_id.job_id())
                    .and_then(|j| j.tasks.get_mut(&task_id.job_task_id().as_num()))
                {
                    t.kind = Kind::Finished;
                }
            }
            EventPayload::TaskFailed { task_id, .. } => {
                if let Some(t) = f
                    .jobs
                    .get_mut(&task_id.job_id())
                    .and_then(|j| j.tasks.get_mut(&task_id.job_task_id().as_num()))
                {
                    if t.last_instance.is_none() {
                        f.fail_without_start = true;
                    }
                    t.kind = Kind::Failed;
                }
            }
            EventPayload::TasksCanceled { task_ids } => {
                for task_id in task_ids {
                    if let Some(t) = f
                        .jobs
                        .get_mut(&task_id.job_id())
                        .and_then(|j| j.tasks.get_mut(&task_id.job_task_id().as_num()))
                    {
                        t.kind = Kind::Canceled;
                    }
                }
            }
            EventPayload::TasksAborted { task_ids } => {
                for task_id in task_ids {
                    if let Some(t) = f
                        .jobs
                        .get_mut(&task_id.job_id())
                        .and_then(|j| j.tasks.get_mut(&task_id.job_task_id().as_num()))
                    {
                        t.kind = Kind::Aborted;
                    }
                }
            }
            EventPayload::AllocationQueueCreated(id, params) => {
                f.max_queue_id = f.max_queue_id.max(*id);
                f.queues.insert(*id);
                f.queue_details
                    .insert(*id, (serde_json::to_string(&**params).unwrap_or_default(), None));
            }
            EventPayload::AllocationQueueRemoved(id) => {
                f.max_queue_id = f.max_queue_id.max(*id);
                f.queues.remove(id);
                f.queue_details.remove(id);
            }
            EventPayload::AllocationQueued {
                queue_id,
                allocation_id,
                ..
            } => {
                f.max_queue_id = f.max_queue_id.max(*queue_id);
                f.alloc_queue.insert(allocation_id.clone(), *queue_id);
            }

            EventPayload::AllocationStarted(q, _) | EventPayload::AllocationFinished(q, _) => {
                f.max_queue_id = f.max_queue_id.max(*q);
            }
            _ => {}
        }
    }
    for j in f.jobs.values() {
        let any_term = j.tasks.values().any(|t| t.kind.terminal());
        let any_not = j.tasks.values().any(|t| !t.kind.terminal());
        if any_term && any_not {
            f.has_terminal_and_not = true;
        }
    }
    f
}

/// What a restore produced, in comparable form
#[derive(Debug, Clone, PartialEq)]
pub struct Restored {
    pub jobs: BTreeMap<JobId, (bool, BTreeMap<u32, Kind>)>,
    /// task -> (remaining deps, next instance id, crash counter)
    pub pending: BTreeMap<TaskId, (Vec<TaskId>, u32, u32)>,
    pub queues: Vec<u32>,
    pub queue_details: Vec<(u32, String, Option<String>)>,
}

pub struct CutResult {
    pub world: World,
    pub info: RestoreInfo,
    pub restored: Restored,
}

fn panic_text() -> String {
    crate::sim::PANICS.with(|p| {
        p.borrow()
            .last()
            .map(|(l, m)| format!("{l}: {m}"))
            .unwrap_or_else(|| "<no panic info>".to_string())
    })
}

/// Boot a fresh server from `path` (mirrors start_server) and extract the restored state.
pub fn restore_from(
    params: &WorldParams,
    path: &Path,
    origin: tokio::time::Instant,
    offset: std::time::Duration,
) -> Result<CutResult, String> {
    let launch = Rc::new(RefCell::new(LaunchShared::default()));
    let shared = Rc::new(RefCell::new(Shared {
        step: 0,
        pcalls: Vec::new(),
    }));
    let n_before = crate::sim::PANICS.with(|p| p.borrow().len());
    let r = std::panic::catch_unwind(std::panic::AssertUnwindSafe(|| {
        World::boot(
            params,
            launch,
            shared,
            path.to_path_buf(),
            None,
            1,
            origin,
            offset,
        )
    }));
    let (world, info) = match r {
        Err(_) => {
            let t = panic_text();
            // the panic belongs to this check, not to the case as a whole
            crate::sim::PANICS.with(|p| p.borrow_mut().truncate(n_before));
            return Err(format!("restore panics: {t}"));
        }
        Ok(Err(e)) => return Err(format!("restore fails: {e}")),
        Ok(Ok((w, Some(info)))) => (w, info),
        Ok(Ok((_, None))) => return Err("journal file missing".to_string()),
    };
    let views = job_views(&world);
    let restored = Restored {
        jobs: views
            .iter()
            .map(|(j, v)| (*j, (v.open, v.tasks.clone())))
            .collect(),
        pending: info
            .submitted_tasks
            .iter()
            .map(|(t, deps, inst, cc)| {
                let mut d = deps.clone();
                d.sort();
                (*t, (d, *inst, *cc))
            })
            .collect(),
        queues: {
            let mut q = info.queues.clone();
            q.sort();
            q
        },
        queue_details: {
            let mut q = info.queue_details.clone();
            q.sort();
            q
        },
    };
    Ok(CutResult {
        world,
        info,
        restored,
    })
}

fn alarm(obs: &mut Obs, prop: &'static str, sig: &str, detail: String) {
    obs.alarm(prop, 0, sig, detail);
}

/// Compare the restored state of a prefix with the reference fold. Returns false on mismatch.
pub fn check_against_fold(
    obs: &mut Obs,
    f: &Folded,
    cut: &CutResult,
    label: &str,
) {
    let views = job_views(&cut.world);
    // unfinished jobs
    let expect_jobs: BTreeSet<JobId> = f.jobs.keys().copied().collect();
    let got_jobs: BTreeSet<JobId> = views.keys().copied().collect();
    if expect_jobs != got_jobs {
        alarm(
            obs,
            "C10",
            "restored set of unfinished jobs differs from the journal",
            format!("{label}: journal records {expect_jobs:?}, restored {got_jobs:?}"),
        );
    }
    for (j, jf) in &f.jobs {
        let Some(v) = views.get(j) else { continue };
        if v.open != jf.open {
            alarm(
                obs,
                "C10",
                "restored job has a different open/closed status",
                format!("{label}: job {j} recorded open={} restored open={}", jf.open, v.open),
            );
        }
        let expect_ids: BTreeSet<u32> = jf.tasks.keys().copied().collect();
        let got_ids: BTreeSet<u32> = v.tasks.keys().copied().collect();
        if expect_ids != got_ids {
            alarm(
                obs,
                "C10",
                "restored job has a different task set",
                format!("{label}: job {j} recorded {expect_ids:?} restored {got_ids:?}"),
            );
        }
        for (id, tf) in &jf.tasks {
            let Some(k) = v.tasks.get(id) else { continue };
            let expect = if tf.kind.terminal() {
                tf.kind
            } else {
                Kind::Waiting
            };
            if *k != expect {
                alarm(
                    obs,
                    "C10",
                    "restored task state differs from the recorded outcome",
                    format!(
                        "{label}: task {j}@{id} recorded {:?}, restored {:?}",
                        tf.kind, k
                    ),
                );
            }
        }
        // counters agree with the task states
        let mut c = (0u32, 0u32, 0u32, 0u32, 0u32);
        for k in v.tasks.values() {
            match k {
                Kind::Waiting => {}
                Kind::Running => c.0 += 1,
                Kind::Finished => c.1 += 1,
                Kind::Failed => c.2 += 1,
                Kind::Canceled => c.3 += 1,
                Kind::Aborted => c.4 += 1,
            }
        }
        if c != v.counters || v.n_tasks as usize != v.tasks.len() {
            alarm(
                obs,
                "C10",
                "restored job counters do not agree with the task states",
                format!(
                    "{label}: job {j} counters {:?} (n_tasks {}) but task states give {:?} ({} tasks, {} submits)",
                    v.counters,
                    v.n_tasks,
                    c,
                    v.tasks.len(),
                    jf.n_submits
                ),
            );
        }
        if v.status.is_none() {
            alarm(
                obs,
                "C10",
                "job_status panics on a restored job",
                format!("{label}: job {j} counters {:?}", v.counters),
            );
        }
    }
    // every non-terminal task is handed to the scheduler exactly once, dependencies intact
    let mut expect_pending: BTreeMap<TaskId, Vec<TaskId>> = BTreeMap::new();
    for (j, jf) in &f.jobs {
        for (id, tf) in &jf.tasks {
            if !tf.kind.terminal() {
                let deps: Vec<TaskId> = tf
                    .deps
                    .iter()
                    .filter(|d| jf.tasks.get(d).is_some_and(|x| x.kind != Kind::Finished))
                    .map(|d| TaskId::new(*j, (*d).into()))
                    .collect();
                let mut deps = deps;
                deps.sort();
                // a dependency named twice in the submit is one dependency
                deps.dedup();
                expect_pending.insert(TaskId::new(*j, (*id).into()), deps);
            }
        }
    }
    let got: BTreeSet<TaskId> = cut.info.submitted_tasks.iter().map(|t| t.0).collect();
    if got.len() != cut.info.submitted_tasks.len() {
        alarm(
            obs,
            "C10",
            "a task is handed to the scheduler twice on restore",
            format!("{label}"),
        );
    }
    let expect: BTreeSet<TaskId> = expect_pending.keys().copied().collect();
    if got != expect {
        let missing: Vec<&TaskId> = expect.difference(&got).take(5).collect();
        let extra: Vec<&TaskId> = got.difference(&expect).take(5).collect();
        alarm(
            obs,
            "C10",
            "tasks handed to the scheduler on restore are not exactly the unfinished tasks",
            format!("{label}: missing {missing:?}, extra {extra:?}"),
        );
    }
    for (t, (deps, inst, cc)) in &cut.restored.pending {
        if let Some(ed) = expect_pending.get(t) {
            if ed != deps {
                alarm(
                    obs,
                    "C10",
                    "restored task has different remaining dependencies",
                    format!("{label}: {t} expected {ed:?} restored {deps:?}"),
                );
            }
        }
        if let Some(tf) = f
            .jobs
            .get(&t.job_id())
            .and_then(|j| j.tasks.get(&t.job_task_id().as_num()))
        {
            if let Some(li) = tf.last_instance {
                if *inst <= li {
                    alarm(
                        obs,
                        "C06",
                        "restored task would re-run with an instance id that was already used",
                        format!("{label}: {t} last recorded instance {li}, next instance {inst}"),
                    );
                }
            }
            if !tf.lenient && *cc != tf.crash_count {
                alarm(
                    obs,
                    "C07",
                    "crash count does not survive the restart",
                    format!(
                        "{label}: {t} journal records {} failure-type losses while running, restored counter {}",
                        tf.crash_count, cc
                    ),
                );
            }
        }
    }
    // the same two numbers as the scheduler holds them after it was given the restored tasks
    // (the values above are what the restore hands over)
    let core = cut.world.snapshot();
    for ts in &core.tasks {
        if let Some(tf) = f
            .jobs
            .get(&ts.id.job_id())
            .and_then(|j| j.tasks.get(&ts.id.job_task_id().as_num()))
        {
            if let Some(li) = tf.last_instance {
                if ts.instance_id.as_num() <= li {
                    alarm(
                        obs,
                        "C06",
                        "restored task would re-run with an instance id that was already used",
                        format!(
                            "{label}: {} last recorded instance {li}, the scheduler holds instance {}",
                            ts.id,
                            ts.instance_id.as_num()
                        ),
                    );
                }
            }
            if !tf.lenient && ts.crash_counter != tf.crash_count {
                alarm(
                    obs,
                    "C07",
                    "crash count does not survive the restart",
                    format!(
                        "{label}: {} journal records {} failure-type losses while running, the scheduler holds {}",
                        ts.id, tf.crash_count, ts.crash_counter
                    ),
                );
            }
        }
    }
    // C11
    let new_job = cut.world.state_ref.get_mut().new_job_id();
    if new_job.as_num() <= f.max_job_id {
        alarm(
            obs,
            "C11",
            "job id reused after restart",
            format!("{label}: new job id {new_job}, journal mentions job {}", f.max_job_id),
        );
    }
    if cut.info.queue_id_counter <= f.max_queue_id {
        alarm(
            obs,
            "C11",
            "allocation queue id reused after restart",
            format!(
                "{label}: next queue id {}, journal mentions queue {}",
                cut.info.queue_id_counter, f.max_queue_id
            ),
        );
    }
    if let Some(uid) = &f.server_uid {
        if &cut.info.server_uid != uid || &cut.world.server_uid != uid {
            alarm(
                obs,
                "C11",
                "server uid not kept across the restart",
                format!("{label}: journal {uid}, restored {}", cut.info.server_uid),
            );
        }
    }
    let mut q: Vec<u32> = f.queues.iter().copied().collect();
    q.sort();
    if q != cut.restored.queues {
        alarm(
            obs,
            "C10",
            "restored allocation queues differ from the journal",
            format!("{label}: journal {q:?} restored {:?}", cut.restored.queues),
        );
    } else {
        for (id, params, res) in &cut.restored.queue_details {
            if let Some((p, _)) = f.queue_details.get(id) {
                if p != params {
                    alarm(
                        obs,
                        "C10",
                        "restored allocation queue has different parameters than recorded",
                        format!("{label}: queue {id}: journal {p} restored {params}"),
                    );
                }
            }
            let expect = f.queue_worker_res.get(id);
            if expect != res.as_ref() {
                alarm(
                    obs,
                    "C10",
                    "restored allocation queue has different worker resources than the last worker recorded for it",
                    format!("{label}: queue {id}: journal {expect:?} restored {res:?}"),
                );
            }
        }
    }
    if !f.queues.is_empty() {
        obs.class("restore-with-allocation-queues");
    }
}

/// C11 for allocation queues, through the production path: the restored queues are handed to the
/// real autoalloc state the way `start_server` does it (`AddQueue` with their recorded ids, the
/// counter initialised from the restore), then a new queue is created; its id must not be one
/// the journal mentions.
async fn check_new_queue_id(
    obs_rc: &Rc<RefCell<Obs>>,
    f: &Folded,
    cut: &CutResult,
    dir: &Path,
    label: &str,
) {
    use hyperqueue::common::rpc::ResponseToken;
    use hyperqueue::server::autoalloc::verif::{AutoAllocMessage, AutoAllocSim};
    if f.max_queue_id == 0 {
        return;
    }
    let events = hyperqueue::server::event::streamer::EventStreamer::new(None);
    let mut a = AutoAllocSim::new(cut.world.server_ref.clone(), events, cut.info.queue_id_counter);
    for (id, params, res) in &cut.restored.queue_details {
        let Ok(params) = serde_json::from_str(params) else {
            continue;
        };
        let worker_resources = res.as_ref().and_then(|r| serde_json::from_str(r).ok());
        let (t, r) = ResponseToken::new();
        a.handle_message(AutoAllocMessage::AddQueue {
            server_directory: dir.to_path_buf(),
            params,
            queue_id: Some(*id),
            worker_resources,
            response: t,
        })
        .await;
        let _ = r.await;
    }
    let (t, r) = ResponseToken::new();
    a.handle_message(AutoAllocMessage::AddQueue {
        server_directory: dir.to_path_buf(),
        params: crate::sim::palette::queue_parameters(7),
        queue_id: None,
        worker_resources: None,
        response: t,
    })
    .await;
    if let Ok(Ok(new_id)) = r.await {
        obs_rc.borrow_mut().class("new-queue-after-restart");
        if new_id <= f.max_queue_id {
            alarm(
                &mut obs_rc.borrow_mut(),
                "C11",
                "allocation queue id reused after restart",
                format!(
                    "{label}: a queue created after the restored queues {:?} were re-added got id {new_id}, the journal mentions queue {}",
                    cut.restored.queues, f.max_queue_id
                ),
            );
        }
    }
}

/// The real start path (`init_hq_server`, the entry point of `hq server start`) on a copy of the
/// complete journal, with a freshly generated access-file UID as configuration: the server has to
/// come up, keep the UID recorded in the journal, and give a new job an id that the journal does
/// not mention. Runs on its own thread with a real (unpaused) runtime and loopback sockets.
fn real_start_check(journal: &Path, dir: &Path) -> Result<(String, u32), String> {
    use hyperqueue::client::globalsettings::GlobalSettings;
    use hyperqueue::client::output::quiet::Quiet;
    use hyperqueue::server::bootstrap::{ServerConfig, get_client_session, init_hq_server};
    use hyperqueue::transfer::messages::{FromClientMessage, SubmitResponse, ToClientMessage};
    let server_dir = dir.join("realboot-server-dir");
    let _ = std::fs::remove_dir_all(&server_dir);
    std::fs::create_dir_all(&server_dir).map_err(|e| format!("{e:?}"))?;
    let jcopy = dir.join("realboot.bin");
    std::fs::copy(journal, &jcopy).map_err(|e| format!("{e:?}"))?;
    let sd = server_dir.clone();
    let h = std::thread::Builder::new()
        .stack_size(32 << 20)
        .spawn(move || -> Result<(String, u32), String> {
            let rt = tokio::runtime::Builder::new_current_thread()
                .enable_all()
                .build()
                .map_err(|e| format!("{e:?}"))?;
            let local = tokio::task::LocalSet::new();
            rt.block_on(local.run_until(async move {
                let gsettings = GlobalSettings::new(sd.clone(), Box::new(Quiet));
                let cfg = ServerConfig {
                    worker_host: "localhost".to_string(),
                    client_host: "localhost".to_string(),
                    idle_timeout: None,
                    client_port: None,
                    worker_port: None,
                    journal_path: Some(jcopy.clone()),
                    journal_flush_period: std::time::Duration::from_secs(30),
                    worker_secret_key: None,
                    client_secret_key: None,
                    server_uid: Some("zzzzzz".to_string()),
                    scheduler_mip_time_limit: std::time::Duration::from_secs(5),
                };
                let server = init_hq_server(&gsettings, cfg);
                let client = async {
                    let mut tries = 0;
                    let mut session = loop {
                        match get_client_session(&sd).await {
                            Ok(s) => break s,
                            Err(e) => {
                                tries += 1;
                                if tries > 200 {
                                    return Err(format!("no client session: {e:?}"));
                                }
                                tokio::time::sleep(std::time::Duration::from_millis(25)).await
                            }
                        }
                    };
                    let info = hyperqueue::rpc_call!(
                        session.connection(),
                        FromClientMessage::ServerInfo,
                        ToClientMessage::ServerInfo(r) => r
                    )
                    .await
                    .map_err(|e| format!("server info: {e:?}"))?;
                    let req = crate::sim::palette::array_submit(
                        None,
                        crate::sim::palette::int_array(&[0]),
                        None,
                        crate::sim::palette::request(0),
                        crate::sim::palette::task_description(0, Default::default(), None),
                        None,
                        "after-restart",
                    );
                    let resp = hyperqueue::rpc_call!(
                        session.connection(),
                        FromClientMessage::Submit(req, None),
                        ToClientMessage::SubmitResponse(r) => r
                    )
                    .await
                    .map_err(|e| format!("submit: {e:?}"))?;
                    let job = match resp {
                        SubmitResponse::Ok { job, .. } => job.info.id.as_num(),
                        other => return Err(format!("submit refused: {other:?}")),
                    };
                    if let Some(ms) = std::env::var("VERIF_REALSTART_DELAY_MS").ok().and_then(|v| v.parse::<u64>().ok()) {
                        // developer switch: keep the restarted server running for a while
                        tokio::time::sleep(std::time::Duration::from_millis(ms)).await;
                    }
                    hyperqueue::client::server::client_stop_server(session.connection())
                        .await
                        .map_err(|e| format!("stop: {e:?}"))?;
                    Ok((info.server_uid, job))
                };
                match tokio::time::timeout(std::time::Duration::from_secs(60), async {
                    tokio::join!(server, client)
                })
                .await
                {
                    Err(_) => Err("the real server did not finish within 60 s".to_string()),
                    Ok((sres, cres)) => {
                        let c = cres?;
                        sres.map_err(|e| format!("server ended with an error: {e:?}"))?;
                        Ok(c)
                    }
                }
            }))
        })
        .map_err(|e| format!("{e:?}"))?;
    match h.join() {
        Ok(r) => r,
        Err(_) => Err("the real start path panicked".to_string()),
    }
}

fn copy_prefix(src: &Path, dst: &Path, len: u64) -> std::io::Result<()> {
    let data = std::fs::read(src)?;
    let n = (len as usize).min(data.len());
    std::fs::write(dst, &data[..n])
}

fn lcg(x: &mut u64) -> u64 {
    *x = x
        .wrapping_mul(6364136223846793005)
        .wrapping_add(1442695040888963407);
    *x >> 33
}

/// The restore phase executed after the generated history (no drain before).
pub async fn restore_phase(sim: &mut Sim, seed: u64) {
    let obs_rc = sim.obs.clone();
    sim.service_io().await;
    sim.world.journal_flush_all();
    let path = sim.world.journal.path.clone();
    if let Some(e) = &sim.world.journal.error {
        if !e.contains("journal process ended") {
            alarm(
                &mut obs_rc.borrow_mut(),
                "C10",
                "journal process failed",
                e.clone(),
            );
            alarm(
                &mut obs_rc.borrow_mut(),
                "C12",
                "journal process failed",
                e.clone(),
            );
            return;
        }
    }
    let Ok((bounds, events)) = World::record_boundaries(&path) else {
        alarm(
            &mut obs_rc.borrow_mut(),
            "C10",
            "journal written by the server cannot be read back",
            format!("{}", path.display()),
        );
        return;
    };
    let params = WorldParams {
        dir: sim.params.dir.clone(),
        prefill: sim.params.prefill,
    };
    let origin = sim.world.origin;
    let offset = sim.world.offset;
    let cut_path = params.dir.join("cut.bin");
    let mut rng = seed ^ 0x5DEECE66D;
    let file_len = std::fs::metadata(&path).map(|m| m.len()).unwrap_or(0);

    // ---- the real start path on the complete journal (one case in eight)
    if sim.genv >= 1 && seed % 8 == 0 && !events.is_empty() {
        let f = fold(&events);
        match real_start_check(&path, &params.dir) {
            Ok((uid, job)) => {
                let mut obs = obs_rc.borrow_mut();
                obs.class("real-start-path");
                if let Some(juid) = &f.server_uid {
                    if &uid != juid {
                        alarm(
                            &mut obs,
                            "C11",
                            "server uid not kept across the restart",
                            format!("real start path with a regenerated access file: journal {juid}, server runs as {uid}"),
                        );
                    }
                }
                if job <= f.max_job_id {
                    alarm(
                        &mut obs,
                        "C11",
                        "job id reused after restart",
                        format!("real start path: new job id {job}, journal mentions job {}", f.max_job_id),
                    );
                }
            }
            Err(e) => {
                // environment problems (sockets) must not turn into alarms: only a refusal or a
                // crash of the start itself is judged
                let env = ["ddress", "bind", "ocket", "ermission", "too many open"]
                    .iter()
                    .any(|w| e.contains(w));
                if (e.contains("ended with an error") || e.contains("panicked")) && !env {
                    alarm(
                        &mut obs_rc.borrow_mut(),
                        "C10",
                        "restart from the journal fails",
                        format!("real start path on the complete journal: {e}"),
                    );
                } else {
                    obs_rc.borrow_mut().class(&format!("real-start-path-skipped: {}", e.chars().take(60).collect::<String>()));
                }
            }
        }
    }

    // ---- C12: pruned file vs shadow (unpruned) journal
    if sim.world.journal.prunes > 0 {
        obs_rc.borrow_mut().class("journal-pruned");
        check_prune(sim, &params, &bounds, &events, origin, offset);
    }

    // ---- cuts
    let mut cuts: Vec<(u64, usize, bool)> = Vec::new(); // (offset, #complete records, torn)
    let n = bounds.len();
    let idxs: Vec<usize> = if n <= 48 {
        (0..n).collect()
    } else {
        let mut v: Vec<usize> = (0..36).map(|i| i * (n - 12) / 36).collect();
        v.extend(n - 12..n);
        v.dedup();
        v
    };
    for i in idxs {
        cuts.push((bounds[i], i, false));
    }
    if n >= 2 {
        for _ in 0..8 {
            let i = (lcg(&mut rng) as usize) % (n - 1);
            let lo = bounds[i];
            let hi = bounds[i + 1];
            if hi > lo + 1 {
                let off = lo + 1 + lcg(&mut rng) % (hi - lo - 1);
                cuts.push((off, i, true));
            }
        }
    }
    let pruned = sim.world.journal.prunes > 0;
    let mut nontrivial = false;
    let drain_at = if cuts.is_empty() {
        0
    } else {
        (lcg(&mut rng) as usize) % cuts.len()
    };
    for (ci, (off, nrec, torn)) in cuts.iter().enumerate() {
        if *off > file_len {
            continue;
        }
        if copy_prefix(&path, &cut_path, *off).is_err() {
            continue;
        }
        let prefix_events = &events[..(*nrec).min(events.len())];
        let f = fold(prefix_events);
        if f.has_terminal_and_not || f.multi_submit || f.fail_without_start {
            nontrivial = true;
        }
        let label = format!(
            "cut at byte {off} ({} complete records{})",
            nrec,
            if *torn { ", torn tail" } else { "" }
        );
        let cut = match restore_from(&params, &cut_path, origin, offset) {
            Ok(c) => c,
            Err(e) => {
                let sig = if e.starts_with("restore panics") {
                    let loc = e
                        .split("/crates/")
                        .nth(1)
                        .and_then(|s| s.split(": ").next())
                        .unwrap_or("?");
                    format!("restart from the journal panics at {loc}")
                } else {
                    "restart from the journal fails".to_string()
                };
                alarm(
                    &mut obs_rc.borrow_mut(),
                    "C10",
                    &sig,
                    format!("{label}: {e}"),
                );
                continue;
            }
        };
        {
            let mut obs = obs_rc.borrow_mut();
            let expect_trunc = if *torn { Some(bounds[*nrec]) } else { None };
            if cut.info.truncate_size != expect_trunc {
                alarm(
                    &mut obs,
                    "C10",
                    "partially written last record is not cut exactly at the last complete record",
                    format!(
                        "{label}: truncate_size {:?}, expected {:?}",
                        cut.info.truncate_size, expect_trunc
                    ),
                );
            }
            {
                check_against_fold(&mut obs, &f, &cut, &label);
                drop(obs);
                check_new_queue_id(&obs_rc, &f, &cut, &params.dir, &label).await;
                let mut obs = obs_rc.borrow_mut();
                // worker ids: the first id issued after the restart is counter + 1
                if cut.info.worker_id_counter.as_num() < f.max_worker_id {
                    alarm(
                        &mut obs,
                        "C11",
                        "worker id reused after restart",
                        format!(
                            "{label}: next worker id {} but the journal mentions worker {}",
                            cut.info.worker_id_counter.as_num() + 1,
                            f.max_worker_id
                        ),
                    );
                }
                if f.max_worker_id > 0 || f.max_queue_id > 0 || !f.completed_jobs.is_empty() {
                    obs.class("ids-of-gone-objects");
                }
                if pruned {
                    obs.class("restore-of-pruned-journal");
                }
            }
        }
        // the re-opened journal must be well formed: append and re-read
        let mut cut = cut;
        cut.world.pump();
        cut.world.journal_flush_all();
        match World::record_boundaries(&cut_path) {
            Ok((b2, ev2)) => {
                let full_len = std::fs::metadata(&cut_path).map(|m| m.len()).unwrap_or(0);
                if std::env::var("VERIF_DEBUG_CUT").is_ok() {
                    eprintln!(
                        "{label}: truncate={:?} after restart: len={full_len} bounds={:?} events={} journal_err={:?} pending={} world_events={} forwarded={}",
                        cut.info.truncate_size,
                        b2.len(),
                        ev2.len(),
                        cut.world.journal.error,
                        cut.world.journal.pending.len(),
                        cut.world.events.len(),
                        cut.world.journal.events_forwarded,
                    );
                }
                let mut obs = obs_rc.borrow_mut();
                if b2.last().copied() != Some(full_len) {
                    alarm(
                        &mut obs,
                        "C10",
                        "journal re-opened after a restart contains partial data",
                        format!("{label}: last boundary {:?}, file length {full_len}", b2.last()),
                    );
                }
                if ev2.len() < *nrec + 1 {
                    alarm(
                        &mut obs,
                        "C10",
                        "journal re-opened after a restart lost records",
                        format!("{label}: {} records after the restart, {} before", ev2.len(), nrec),
                    );
                }
            }
            Err(e) => {
                alarm(
                    &mut obs_rc.borrow_mut(),
                    "C10",
                    "journal re-opened after a restart cannot be read",
                    format!("{label}: {e:?}"),
                );
            }
        }
        // run the restored server to completion for one cut per case
        if ci == drain_at {
            let seed2 = lcg(&mut rng);
            drain_restored(sim, cut, prefix_events, &f, &label, seed2).await;
        }
    }
    if nontrivial {
        obs_rc.borrow_mut().class("restore-nontrivial");
    }
    obs_rc.borrow_mut().class("restore-phase");
}

/// Continue the restored server with capable workers: every unfinished task runs exactly once
/// more, closed jobs complete.
async fn drain_restored(
    sim: &mut Sim,
    cut: CutResult,
    prefix: &[Event],
    f: &Folded,
    label: &str,
    seed2: u64,
) {
    let obs2 = Rc::new(RefCell::new(Obs::default()));
    obs2.borrow_mut().epochs.push(EpochObs::default());
    let mut mon = Monitors::default();
    mon.load_base(prefix, &cut.world);
    // second generation (generator version >= 1, every other case): the restored server does not
    // just finish the work, it lives on under the same kind of random history (new submits into
    // restored open jobs, cancels, worker losses, prunes, ...) and is then stopped and restored
    // once more: journals with earlier restarts in them
    let second = sim.genv >= 1 && (seed2 & 1) == 1 && !sim.case_choices.is_empty();
    let mut sim2 = Sim {
        profile: sim.profile.clone(),
        case_choices: Vec::new(),
        genv: sim.genv,
        last_alloc: None,
        world: cut.world,
        obs: obs2.clone(),
        mon,
        weights: profile_weights("journal"),
        limits: Limits {
            max_workers: 5,
            max_tasks: if second { 40 } else { 0 },
            max_jobs: if second { 8 } else { 0 },
        },
        eager: true,
        worker_counter: 100,
        params: WorldParams {
            dir: sim.params.dir.clone(),
            prefill: sim.params.prefill,
        },
        total_tasks_submitted: 0,
    };
    sim2.world.set_step(1);
    if second {
        let n = sim.case_choices.len();
        let start = (seed2 as usize >> 1) % n;
        let take = 12 + (seed2 as usize >> 9) % 30;
        for k in 0..take {
            let (c, c2) = sim.case_choices[(start + k) % n];
            let step = sim2.world.step_no() + 1;
            sim2.world.set_step(step);
            let Some(action) = sim2.choose(c, c2) else {
                continue;
            };
            sim2.obs
                .borrow_mut()
                .trace
                .push(format!("{action:?} (did not complete)"));
            let d = sim2.apply(action).await;
            *sim2.obs.borrow_mut().trace.last_mut().unwrap() = format!("{step}: [2nd] {d}");
            sim2.mon.after_step(&sim2.world, &mut sim2.obs.borrow_mut());
            if crate::sim::PANICS.with(|p| !p.borrow().is_empty()) {
                break;
            }
        }
        if crate::sim::PANICS.with(|p| p.borrow().is_empty()) {
            // stop here and restore once more from what is durable now
            sim2.service_io().await;
            sim2.world.journal_flush_all();
            let path2 = sim2.world.journal.path.clone();
            let cut2 = sim2.params.dir.join("cut2.bin");
            if let Ok((b2, ev2)) = World::record_boundaries(&path2) {
                if let Some(end) = b2.last().copied() {
                    if copy_prefix(&path2, &cut2, end).is_ok() {
                        let f2 = fold(&ev2);
                        let label2 = format!("{label}; second restart after {} more records", ev2.len().saturating_sub(prefix.len()));
                        let params2 = WorldParams {
                            dir: sim2.params.dir.clone(),
                            prefill: sim2.params.prefill,
                        };
                        match restore_from(&params2, &cut2, sim2.world.origin, sim2.world.offset) {
                            Ok(c2) => {
                                let mut obs = sim.obs.borrow_mut();
                                check_against_fold(&mut obs, &f2, &c2, &label2);
                                if c2.info.worker_id_counter.as_num() < f2.max_worker_id {
                                    alarm(
                                        &mut obs,
                                        "C11",
                                        "worker id reused after restart",
                                        format!(
                                            "{label2}: next worker id {} but the journal mentions worker {}",
                                            c2.info.worker_id_counter.as_num() + 1,
                                            f2.max_worker_id
                                        ),
                                    );
                                }
                                obs.class("second-restart");
                                if f2.restarts >= 2 {
                                    obs.class("journal-with-earlier-restarts");
                                }
                            }
                            Err(e) => {
                                let sig = if e.starts_with("restore panics") {
                                    let loc = e
                                        .split("/crates/")
                                        .nth(1)
                                        .and_then(|s| s.split(": ").next())
                                        .unwrap_or("?");
                                    format!("restart from the journal panics at {loc}")
                                } else {
                                    "restart from the journal fails".to_string()
                                };
                                alarm(&mut sim.obs.borrow_mut(), "C10", &sig, format!("{label2}: {e}"));
                            }
                        }
                    }
                }
            }
        }
    }
    let q = sim2.drain(true).await;
    let panicked = crate::sim::PANICS.with(|p| !p.borrow().is_empty());
    let mut obs = sim.obs.borrow_mut();
    if panicked {
        alarm(
            &mut obs,
            "C10",
            "restored server panics when it continues",
            format!("{label}: {}", panic_text()),
        );
        return;
    }
    if !q {
        alarm(
            &mut obs,
            "C10",
            "restored server does not come to rest",
            label.to_string(),
        );
        return;
    }
    sim2.mon
        .finish(&sim2.world, &mut obs2.borrow_mut(), q, true);
    obs.class("restored-server-drained");
    // executions after the restart: exactly one per unfinished task
    let l = sim2.world.launch.borrow();
    let mut builds: BTreeMap<TaskId, u32> = BTreeMap::new();
    for (_, _, ev) in &l.log {
        if let crate::sim::launcher::LEvent::Build { task, .. } = ev {
            *builds.entry(*task).or_default() += 1;
        }
    }
    for (j, jf) in &f.jobs {
        if second {
            // faults and cancels happened after the restart: only "never run again" is judged
            for (id, tf) in &jf.tasks {
                let t = TaskId::new(*j, (*id).into());
                let n = builds.get(&t).copied().unwrap_or(0);
                if tf.kind.terminal() && n > 0 {
                    alarm(
                        &mut obs,
                        "C10",
                        "task with a recorded outcome was run again after the restart",
                        format!("{label}: {t} recorded {:?}, executed {n} times", tf.kind),
                    );
                }
            }
            continue;
        }
        for (id, tf) in &jf.tasks {
            let t = TaskId::new(*j, (*id).into());
            let n = builds.get(&t).copied().unwrap_or(0);
            if tf.kind.terminal() && n > 0 {
                alarm(
                    &mut obs,
                    "C10",
                    "task with a recorded outcome was run again after the restart",
                    format!("{label}: {t} recorded {:?}, executed {n} times", tf.kind),
                );
            }
            if !tf.kind.terminal() && n != 1 {
                // may be legitimately aborted/canceled? nothing cancels in the drain; a failed
                // dependency cannot occur (all bodies finish)
                alarm(
                    &mut obs,
                    "C10",
                    "unfinished task was not run exactly once after the restart",
                    format!("{label}: {t} executed {n} times"),
                );
            }
        }
    }
    for a in obs2.borrow().alarms.iter() {
        if a.prop == "C15" {
            continue;
        }
        // a job whose last task outcome is durable but whose JobCompleted record was lost is
        // restored as terminated-but-not-reported; the statement of C10 does not cover the report
        if a.signature.contains("closed job with only terminal tasks was not reported completed")
            || a.signature.contains("closed job did not complete although capable workers")
        {
            continue;
        }
        alarm(
            &mut obs,
            "C10",
            &format!("restored server misbehaves ({})", a.signature),
            format!("{label}: {} {}", a.prop, a.detail),
        );
        // the property itself also covers restarts (C03: restart in the middle of a DAG,
        // C06: instance ids across restarts, C01/C02: outcomes after a restart)
        if matches!(a.prop, "C01" | "C02" | "C03" | "C06") {
            alarm(
                &mut obs,
                a.prop,
                &format!("after a restart from the journal: {}", a.signature),
                format!("{label}: {}", a.detail),
            );
        }
    }
}

/// C12: the pruned file must restore to the same state as the unpruned shadow journal, at every
/// record boundary of the suffix appended after the last prune; it must be well formed,
/// appendable and prunable again.
fn check_prune(
    sim: &mut Sim,
    params: &WorldParams,
    bounds: &[u64],
    events: &[Event],
    origin: tokio::time::Instant,
    offset: std::time::Duration,
) {
    let obs_rc = sim.obs.clone();
    let path = sim.world.journal.path.clone();
    // shadow journal: every persisted event in emission order, written by the real writer
    let shadow_path = params.dir.join("shadow.bin");
    let _ = std::fs::remove_file(&shadow_path);
    let persisted: Vec<Event> = sim.world.events.iter().map(|(_, e)| e.clone()).collect();
    {
        let Ok(mut w) = JournalWriter::create(&shadow_path) else {
            return;
        };
        for e in &persisted {
            let _ = w.store(e.clone());
        }
        let _ = w.finish();
    }
    let Ok((sb, _sev)) = World::record_boundaries(&shadow_path) else {
        return;
    };
    let n_at_prune = sim.world.journal.events_at_last_prune;
    let suffix = persisted.len().saturating_sub(n_at_prune);
    if events.len() < suffix || bounds.len() < suffix + 1 {
        alarm(
            &mut obs_rc.borrow_mut(),
            "C12",
            "pruned journal lost records that were appended after the prune",
            format!(
                "{} records in the file, {} were appended after the last prune",
                events.len(),
                suffix
            ),
        );
        return;
    }
    let base_actual = events.len() - suffix;
    let removed = n_at_prune as i64 - base_actual as i64;
    if removed > 0 {
        obs_rc.borrow_mut().class("prune-removed-records");
    }
    let a_path = params.dir.join("cmpA.bin");
    let b_path = params.dir.join("cmpB.bin");
    let mut live_started = false;
    for j in 0..=suffix {
        let off_a = bounds[base_actual + j];
        let off_b = sb[n_at_prune + j];
        if copy_prefix(&path, &a_path, off_a).is_err()
            || copy_prefix(&shadow_path, &b_path, off_b).is_err()
        {
            continue;
        }
        let ra = restore_from(params, &a_path, origin, offset);
        let rb = restore_from(params, &b_path, origin, offset);
        let mut obs = obs_rc.borrow_mut();
        match (ra, rb) {
            (Ok(a), Ok(b)) => {
                if b.restored.pending.values().any(|(_, inst, _)| *inst > 0) {
                    live_started = true;
                }
                if a.restored.jobs != b.restored.jobs {
                    let ja: BTreeSet<&JobId> = a.restored.jobs.keys().collect();
                    let jb: BTreeSet<&JobId> = b.restored.jobs.keys().collect();
                    alarm(
                        &mut obs,
                        "C12",
                        "pruned journal restores different jobs or task outcomes",
                        format!(
                            "{} records after the prune: pruned file restores jobs {ja:?}, unpruned journal {jb:?} (or their task states differ)",
                            j
                        ),
                    );
                }
                if a.restored.pending != b.restored.pending {
                    let diff: Vec<String> = b
                        .restored
                        .pending
                        .iter()
                        .filter(|(t, v)| a.restored.pending.get(t) != Some(v))
                        .take(3)
                        .map(|(t, v)| {
                            format!(
                                "{t}: unpruned (deps, next instance, crash count) = {v:?}, pruned = {:?}",
                                a.restored.pending.get(t)
                            )
                        })
                        .collect();
                    let sig = if b.restored.pending.iter().any(|(t, v)| {
                        a.restored
                            .pending
                            .get(t)
                            .is_some_and(|x| x.0 == v.0 && x.1 == v.1 && x.2 != v.2)
                    }) {
                        "pruned journal restores different crash counts"
                    } else {
                        "pruned journal restores different pending tasks (dependencies / instance ids)"
                    };
                    alarm(
                        &mut obs,
                        "C12",
                        sig,
                        format!("{} records after the prune: {diff:?}", j),
                    );
                }
                if a.restored.queues != b.restored.queues {
                    alarm(
                        &mut obs,
                        "C12",
                        "pruned journal restores different allocation queues",
                        format!("{:?} vs {:?}", a.restored.queues, b.restored.queues),
                    );
                } else if a.restored.queue_details != b.restored.queue_details {
                    alarm(
                        &mut obs,
                        "C12",
                        "pruned journal restores allocation queues with different parameters or worker resources",
                        format!("{:?} vs {:?}", a.restored.queue_details, b.restored.queue_details),
                    );
                }
                if !a.restored.queues.is_empty() {
                    obs.class("prune-with-allocation-queues");
                }
            }
            (Err(e), Ok(_)) => {
                alarm(
                    &mut obs,
                    "C12",
                    "pruned journal cannot be restored although the unpruned one can",
                    format!("{} records after the prune: {e}", j),
                );
            }
            (_, Err(_)) => {
                // the unpruned journal itself does not restore: that is C10's business
            }
        }
    }
    if live_started && removed > 0 {
        obs_rc.borrow_mut().class("prune-nontrivial");
    }
    // pruned again: prune the final file once more with the current live sets
    let (live_jobs, live_workers) = {
        let st = sim.world.state_ref.get();
        let lj: tako::Set<JobId> = st
            .jobs()
            .filter(|j| !j.is_terminated())
            .map(|j| j.job_id)
            .collect();
        let lw: tako::Set<WorkerId> = st
            .get_workers()
            .values()
            .filter(|w| w.is_running())
            .map(|w| w.worker_id())
            .collect();
        (lj, lw)
    };
    let again = params.dir.join("again.bin");
    let r = (|| -> anyhow::Result<()> {
        let mut reader = JournalReader::open(&path)?;
        let mut writer = JournalWriter::create(&again)?;
        hyperqueue::server::event::journal::verif_prune_journal(
            &mut reader,
            &mut writer,
            &live_jobs,
            &live_workers,
        )
        .map_err(|e| anyhow::anyhow!("{e:?}"))?;
        writer.finish()?;
        Ok(())
    })();
    let mut obs = obs_rc.borrow_mut();
    match r {
        Err(e) => alarm(
            &mut obs,
            "C12",
            "pruned journal cannot be pruned again",
            format!("{e:?}"),
        ),
        Ok(()) => {
            let ra = restore_from(params, &again, origin, offset);
            let rb = restore_from(params, &path, origin, offset);
            if let (Ok(a), Ok(b)) = (ra, rb) {
                if a.restored.jobs != b.restored.jobs || a.restored.pending != b.restored.pending {
                    let sig = if a.restored.jobs == b.restored.jobs
                        && a.restored.pending.iter().all(|(t, v)| {
                            b.restored
                                .pending
                                .get(t)
                                .is_some_and(|x| x.0 == v.0 && x.1 == v.1)
                        }) {
                        "pruned journal restores different crash counts"
                    } else {
                        "pruning a pruned journal again changes what a restart restores"
                    };
                    alarm(&mut obs, "C12", sig, "second prune".to_string());
                }
            }
        }
    }
    let _ = PathBuf::new();
}
