//! Engine ALLOC: the worker resource allocator driven by generated grant/release sequences.
//! C04 = ledger oracle (exclusivity, conservation, exactness of grants);
//! C16 = brute-force reference over group subsets (policy semantics, no spurious refusal,
//!       admission test == grant).

use std::collections::{BTreeMap, BTreeSet};
use std::rc::Rc;

use proptest::prelude::*;
use serde::{Deserialize, Serialize};
use tako::resources::{
    Allocation, AllocationRequest, ResourceAllocRequest, ResourceAmount, ResourceDescriptor,
    ResourceDescriptorCoupling, ResourceDescriptorCouplingItem, ResourceDescriptorItem,
    ResourceDescriptorKind, ResourceRequest,
};
use tako::verif::{AllocSnap, AllocatorHandle, VerifPoolState, allocation_snap};

use crate::common::{Engine, Outcome, Tier, Violation, hash_str};

const FRACTIONS: u64 = 10_000;

#[derive(Serialize, Deserialize, Debug, Clone)]
pub enum KindSpec {
    Range(u32),
    List(u32),
    Groups(Vec<u32>),
    /// size in fractions
    Sum(u64),
}

#[derive(Serialize, Deserialize, Debug, Clone)]
pub struct EntrySpec {
    pub resource: u8,
    /// 0 compact, 1 tight, 2 scatter, 3 compact!, 4 tight!, 5 all
    pub policy: u8,
    /// amount in fractions
    pub amount: u64,
}

#[derive(Serialize, Deserialize, Debug, Clone)]
pub enum OpSpec {
    Alloc(Vec<EntrySpec>),
    Release(u16),
    ReleaseAll,
}

#[derive(Serialize, Deserialize, Debug, Clone)]
pub struct AllocCase {
    pub resources: Vec<KindSpec>,
    /// (res1, group1, res2, group2, weight)
    pub coupling: Vec<(u8, u8, u8, u8, u16)>,
    pub ops: Vec<OpSpec>,
}

fn kind_strategy(grouped_bias: bool) -> BoxedStrategy<KindSpec> {
    let groups = proptest::collection::vec(1u32..5, 2..5).prop_map(KindSpec::Groups);
    if grouped_bias {
        prop_oneof![
            6 => groups,
            1 => (1u32..9).prop_map(KindSpec::Range),
            1 => (1u32..7).prop_map(KindSpec::List),
            1 => (1u64..12, prop_oneof![Just(0u64), Just(5000), Just(2500)])
                .prop_map(|(u, f)| KindSpec::Sum(u * FRACTIONS + f)),
        ]
        .boxed()
    } else {
        prop_oneof![
            3 => groups,
            2 => (1u32..9).prop_map(KindSpec::Range),
            2 => (1u32..7).prop_map(KindSpec::List),
            2 => (1u64..12, prop_oneof![Just(0u64), Just(5000), Just(2500)])
                .prop_map(|(u, f)| KindSpec::Sum(u * FRACTIONS + f)),
        ]
        .boxed()
    }
}

const AMOUNT_GRID: [u64; 14] = [
    2500, 5000, 7500, 10000, 12500, 15000, 20000, 22500, 30000, 40000, 47500, 60000, 80000, 1,
];

fn entry_strategy(n_res: usize) -> BoxedStrategy<EntrySpec> {
    (
        0..n_res as u8,
        prop_oneof![
            4 => Just(0u8), 4 => Just(1u8), 3 => Just(2u8), 2 => Just(3u8), 2 => Just(4u8), 1 => Just(5u8)
        ],
        proptest::sample::select(AMOUNT_GRID.to_vec()),
    )
        .prop_map(|(resource, policy, amount)| {
            // the CLI refuses non-integer amounts for compact!
            let amount = if policy == 3 {
                amount.div_ceil(FRACTIONS) * FRACTIONS
            } else {
                amount
            };
            EntrySpec {
                resource,
                policy,
                amount,
            }
        })
        .boxed()
}

pub fn case_strategy(grouped_bias: bool, max_ops: usize) -> BoxedStrategy<AllocCase> {
    proptest::collection::vec(kind_strategy(grouped_bias), 1..4)
        .prop_flat_map(move |resources| {
            let n = resources.len();
            let grouped: Vec<(u8, u8)> = resources
                .iter()
                .enumerate()
                .filter_map(|(i, k)| match k {
                    KindSpec::Groups(g) => Some((i as u8, g.len() as u8)),
                    _ => None,
                })
                .collect();
            let coupling = if grouped.is_empty() {
                Just(Vec::new()).boxed()
            } else {
                let g2 = grouped.clone();
                proptest::collection::vec(
                    (
                        proptest::sample::select(grouped.clone()),
                        proptest::sample::select(g2),
                        any::<u8>(),
                        any::<u8>(),
                        prop_oneof![Just(256u16), Just(64), Just(128), Just(1)],
                    ),
                    0..4,
                )
                .prop_map(|items| {
                    items
                        .into_iter()
                        .map(|((r1, n1), (r2, n2), a, b, w)| (r1, a % n1, r2, b % n2, w))
                        .collect::<Vec<_>>()
                })
                .boxed()
            };
            let op = prop_oneof![
                6 => proptest::collection::vec(entry_strategy(n), 1..4).prop_map(OpSpec::Alloc),
                3 => any::<u16>().prop_map(OpSpec::Release),
                1 => Just(OpSpec::ReleaseAll),
            ];
            (
                Just(resources),
                coupling,
                proptest::collection::vec(op, 1..max_ops),
            )
        })
        .prop_map(|(resources, coupling, ops)| AllocCase {
            resources,
            coupling,
            ops,
        })
        .boxed()
}

/// index -> group, per resource; indices are numbered like the allocator's label map does
fn index_groups(kind: &KindSpec) -> Option<Vec<u32>> {
    match kind {
        KindSpec::Range(n) | KindSpec::List(n) => Some(vec![0; *n as usize]),
        KindSpec::Groups(gs) => {
            let mut v = Vec::new();
            for (g, n) in gs.iter().enumerate() {
                for _ in 0..*n {
                    v.push(g as u32);
                }
            }
            Some(v)
        }
        KindSpec::Sum(_) => None,
    }
}

fn build_descriptor(case: &AllocCase) -> Option<ResourceDescriptor> {
    let mut items = Vec::new();
    for (i, k) in case.resources.iter().enumerate() {
        let name = if i == 0 {
            "cpus".to_string()
        } else {
            format!("res{i}")
        };
        let kind = match k {
            KindSpec::Range(n) => ResourceDescriptorKind::Range {
                start: 0.into(),
                end: (*n - 1).into(),
            },
            KindSpec::List(n) => {
                ResourceDescriptorKind::list((0..*n).map(|x| format!("L{x}")).collect()).ok()?
            }
            KindSpec::Groups(gs) => {
                let mut c = 0;
                let groups: Vec<Vec<String>> = gs
                    .iter()
                    .map(|n| {
                        (0..*n)
                            .map(|_| {
                                c += 1;
                                format!("{}", c - 1)
                            })
                            .collect()
                    })
                    .collect();
                ResourceDescriptorKind::groups(groups).ok()?
            }
            KindSpec::Sum(s) => ResourceDescriptorKind::Sum {
                size: ResourceAmount::new((*s / FRACTIONS) as u32, (*s % FRACTIONS) as u32),
            },
        };
        items.push(ResourceDescriptorItem { name, kind });
    }
    // normalised, de-duplicated coupling (what the CLI parser produces)
    let mut weights: Vec<ResourceDescriptorCouplingItem> = case
        .coupling
        .iter()
        .map(|(r1, g1, r2, g2, w)| {
            let mut item = ResourceDescriptorCouplingItem {
                resource1_idx: *r1,
                group1_idx: (*g1).into(),
                resource2_idx: *r2,
                group2_idx: (*g2).into(),
                weight: *w,
            };
            item.normalize();
            item
        })
        .filter(|i| !(i.resource1_idx == i.resource2_idx && i.group1_idx == i.group2_idx))
        .collect();
    weights.sort();
    weights.dedup_by(|a, b| {
        a.resource1_idx == b.resource1_idx
            && a.group1_idx == b.group1_idx
            && a.resource2_idx == b.resource2_idx
            && a.group2_idx == b.group2_idx
    });
    let desc = ResourceDescriptor::new(items, ResourceDescriptorCoupling { weights });
    desc.validate(true).ok()?;
    Some(desc)
}

fn policy_of(e: &EntrySpec) -> AllocationRequest {
    let a = ResourceAmount::new((e.amount / FRACTIONS) as u32, (e.amount % FRACTIONS) as u32);
    match e.policy {
        0 => AllocationRequest::Compact(a),
        1 => AllocationRequest::Tight(a),
        2 => AllocationRequest::Scatter(a),
        3 => AllocationRequest::ForceCompact(a),
        4 => AllocationRequest::ForceTight(a),
        _ => AllocationRequest::All,
    }
}

#[derive(Clone, Debug)]
struct GroupFree {
    whole: u32,
    max_frac: u32,
}

/// Free state of one indexed resource, per group, from the pool snapshot
fn group_free(pool: &VerifPoolState) -> Vec<GroupFree> {
    match pool {
        VerifPoolState::Indexed { groups, .. } => groups
            .iter()
            .map(|(whole, fr)| GroupFree {
                whole: whole.len() as u32,
                max_frac: fr.iter().map(|(_, f)| *f).max().unwrap_or(0),
            })
            .collect(),
        _ => Vec::new(),
    }
}

/// Can `amount` be satisfied using only the groups in `mask`?
fn feasible_in(groups: &[GroupFree], mask: u32, amount: u64) -> bool {
    let units = (amount / FRACTIONS) as u32;
    let frac = (amount % FRACTIONS) as u32;
    let sel: Vec<&GroupFree> = groups
        .iter()
        .enumerate()
        .filter(|(i, _)| mask & (1 << i) != 0)
        .map(|(_, g)| g)
        .collect();
    let whole: u32 = sel.iter().map(|g| g.whole).sum();
    if frac == 0 {
        whole >= units
    } else {
        (whole >= units && sel.iter().any(|g| g.max_frac >= frac)) || whole >= units + 1
    }
}

fn min_groups(groups: &[GroupFree], amount: u64) -> Option<u32> {
    let n = groups.len();
    let mut best = None;
    for mask in 1u32..(1 << n) {
        if feasible_in(groups, mask, amount) {
            let c = mask.count_ones();
            if best.is_none_or(|b| c < b) {
                best = Some(c);
            }
        }
    }
    best
}

/// Maximum number of distinct groups any valid grant of `amount` could touch now
/// (exhaustive over all distributions of the whole units and the fractional index).
fn max_groups(groups: &[GroupFree], amount: u64) -> Option<u32> {
    let units = (amount / FRACTIONS) as u32;
    let frac = (amount % FRACTIONS) as u32;
    let n = groups.len();
    let mut best: Option<u32> = None;
    let mut counts = vec![0u32; n];
    fn rec(
        groups: &[GroupFree],
        counts: &mut Vec<u32>,
        g: usize,
        left: u32,
        frac: u32,
        best: &mut Option<u32>,
    ) {
        let n = groups.len();
        if g == n {
            if left != 0 {
                return;
            }
            let base: u32 = counts.iter().filter(|c| **c > 0).count() as u32;
            if frac == 0 {
                if best.is_none_or(|b| base > b) {
                    *best = Some(base);
                }
                return;
            }
            for h in 0..n {
                let ok = groups[h].max_frac >= frac || groups[h].whole > counts[h];
                if ok {
                    let c = if counts[h] > 0 { base } else { base + 1 };
                    if best.is_none_or(|b| c > b) {
                        *best = Some(c);
                    }
                }
            }
            return;
        }
        for c in 0..=left.min(groups[g].whole) {
            counts[g] = c;
            rec(groups, counts, g + 1, left - c, frac, best);
        }
        counts[g] = 0;
    }
    rec(groups, &mut counts, 0, units, frac, &mut best);
    best
}

struct Live {
    alloc: Rc<Allocation>,
    snap: Vec<AllocSnap>,
}

pub struct AllocRun {
    pub alarms: Vec<(&'static str, String, String)>,
    pub classes: BTreeSet<String>,
    pub trace: Vec<String>,
}

fn alarm(run: &mut AllocRun, prop: &'static str, sig: &str, detail: String) {
    if !run.alarms.iter().any(|a| a.0 == prop) {
        run.alarms.push((prop, sig.to_string(), detail));
    }
}

/// Ledger check: the pools must be exactly what the live allocations imply.
fn check_ledger(
    run: &mut AllocRun,
    case: &AllocCase,
    handle: &AllocatorHandle,
    live: &[Live],
    when: &str,
) {
    let pools = handle.pools();
    for (r, kind) in case.resources.iter().enumerate() {
        let Some(pool) = pools.get(r) else {
            alarm(run, "C04", "pool missing", format!("resource {r}"));
            continue;
        };
        match (kind, pool) {
            (KindSpec::Sum(size), VerifPoolState::Sum { full_size, free }) => {
                let held: u64 = live
                    .iter()
                    .flat_map(|l| l.snap.iter())
                    .filter(|a| a.resource_id == r as u32)
                    .map(|a| a.amount)
                    .sum();
                if held > *size {
                    alarm(
                        run,
                        "C04",
                        "sum resource over-committed",
                        format!("{when}: resource {r} held {held} of {size}"),
                    );
                }
                if *full_size != *size || *free != size.saturating_sub(held) {
                    alarm(
                        run,
                        "C04",
                        "sum resource not conserved",
                        format!("{when}: resource {r} size {size} held {held} but pool says free {free}"),
                    );
                }
            }
            (k, VerifPoolState::Indexed { groups, .. }) => {
                let Some(idx_groups) = index_groups(k) else {
                    alarm(run, "C04", "pool kind mismatch", format!("resource {r}"));
                    continue;
                };
                let n = idx_groups.len();
                let mut held = vec![0u64; n];
                let mut held_whole = vec![false; n];
                for l in live {
                    for a in l.snap.iter().filter(|a| a.resource_id == r as u32) {
                        for (i, g, f) in &a.indices {
                            if *i as usize >= n {
                                alarm(
                                    run,
                                    "C04",
                                    "granted index does not belong to the resource",
                                    format!("{when}: resource {r} index {i}"),
                                );
                                continue;
                            }
                            if idx_groups[*i as usize] != *g {
                                alarm(
                                    run,
                                    "C04",
                                    "granted index reported in a wrong group",
                                    format!(
                                        "{when}: resource {r} index {i} is in group {} but reported {g}",
                                        idx_groups[*i as usize]
                                    ),
                                );
                            }
                            if *f == 0 {
                                held[*i as usize] += FRACTIONS;
                                held_whole[*i as usize] = true;
                            } else {
                                held[*i as usize] += *f as u64;
                            }
                        }
                    }
                }
                for (i, h) in held.iter().enumerate() {
                    if *h > FRACTIONS {
                        alarm(
                            run,
                            "C04",
                            "an individual resource index is held beyond 100%",
                            format!("{when}: resource {r} index {i} held {h}/10000"),
                        );
                    }
                }
                // compare with the pool
                let mut free_whole: BTreeSet<u32> = BTreeSet::new();
                let mut free_frac: BTreeMap<u32, u32> = BTreeMap::new();
                for (g, (whole, fr)) in groups.iter().enumerate() {
                    for i in whole {
                        if idx_groups.get(*i as usize) != Some(&(g as u32)) {
                            alarm(
                                run,
                                "C04",
                                "free index filed under a wrong group",
                                format!("{when}: resource {r} index {i} group {g}"),
                            );
                        }
                        if !free_whole.insert(*i) {
                            alarm(
                                run,
                                "C04",
                                "index is free twice",
                                format!("{when}: resource {r} index {i}"),
                            );
                        }
                    }
                    for (i, f) in fr {
                        free_frac.insert(*i, *f);
                    }
                }
                for i in 0..n {
                    let i32_ = i as u32;
                    let expect_free = FRACTIONS - held[i].min(FRACTIONS);
                    let actual_free = if free_whole.contains(&i32_) {
                        FRACTIONS
                    } else {
                        free_frac.get(&i32_).copied().unwrap_or(0) as u64
                    };
                    if free_whole.contains(&i32_) && free_frac.contains_key(&i32_) {
                        alarm(
                            run,
                            "C04",
                            "index is both wholly and partially free",
                            format!("{when}: resource {r} index {i}"),
                        );
                    }
                    if expect_free != actual_free {
                        alarm(
                            run,
                            "C04",
                            "free state of an index differs from what the live allocations hold",
                            format!(
                                "{when}: resource {r} index {i}: held {}/10000, pool says free {}/10000",
                                held[i], actual_free
                            ),
                        );
                    }
                }
            }
            (_, other) => {
                alarm(
                    run,
                    "C04",
                    "pool kind mismatch",
                    format!("resource {r}: {other:?}"),
                );
            }
        }
    }
    // the concise summary must equal a recount of the pools
    let concise = handle.concise();
    for (r, pool) in pools.iter().enumerate() {
        let Some(c) = concise.get(r) else { continue };
        match pool {
            VerifPoolState::Indexed { groups, .. } => {
                for (g, (whole, fr)) in groups.iter().enumerate() {
                    let Some((units, cf)) = c.get(g) else {
                        alarm(run, "C04", "concise summary misses a group", format!("{when}: resource {r} group {g}"));
                        continue;
                    };
                    let a: BTreeMap<u32, u32> = fr.iter().filter(|(_, f)| *f > 0).copied().collect();
                    let b: BTreeMap<u32, u32> = cf.iter().filter(|(_, f)| *f > 0).copied().collect();
                    if *units as usize != whole.len() || a != b {
                        alarm(
                            run,
                            "C04",
                            "allocator summary of free resources differs from the pools",
                            format!(
                                "{when}: resource {r} group {g}: pool whole={} fractions={a:?}; summary units={units} fractions={b:?}",
                                whole.len()
                            ),
                        );
                    }
                }
            }
            VerifPoolState::Sum { free, .. } => {
                let total: u64 = c
                    .iter()
                    .map(|(u, fr)| *u as u64 * FRACTIONS + fr.iter().map(|(_, f)| *f as u64).sum::<u64>())
                    .sum();
                if total != *free {
                    alarm(
                        run,
                        "C04",
                        "allocator summary of free resources differs from the pools",
                        format!("{when}: sum resource {r}: pool free {free}, summary {total}"),
                    );
                }
            }
            VerifPoolState::Empty => {}
        }
    }
}

pub fn execute(case: &AllocCase) -> AllocRun {
    let mut run = AllocRun {
        alarms: Vec::new(),
        classes: BTreeSet::new(),
        trace: Vec::new(),
    };
    let Some(desc) = build_descriptor(case) else {
        run.classes.insert("invalid-descriptor".into());
        return run;
    };
    let result = std::panic::catch_unwind(std::panic::AssertUnwindSafe(|| {
        let mut handle = AllocatorHandle::new(&desc);
        let empty_pools = handle.pools();
        let mut live: Vec<Live> = Vec::new();
        let mut released_then_regrant = false;
        let mut any_release = false;
        for (opi, op) in case.ops.iter().enumerate() {
            match op {
                OpSpec::Alloc(entries) => {
                    // distinct resources only (validate() refuses duplicates)
                    let mut seen = BTreeSet::new();
                    let entries: Vec<&EntrySpec> = entries
                        .iter()
                        .filter(|e| {
                            (e.resource as usize) < case.resources.len() && seen.insert(e.resource)
                        })
                        .collect();
                    if entries.is_empty() {
                        continue;
                    }
                    let rq = ResourceRequest::new(
                        0,
                        std::time::Duration::ZERO,
                        entries
                            .iter()
                            .map(|e| ResourceAllocRequest {
                                resource_id: (e.resource as u32).into(),
                                request: policy_of(e),
                            })
                            .collect(),
                        Default::default(),
                    );
                    if rq.validate().is_err() {
                        continue;
                    }
                    let pre = handle.pools();
                    let enabled = handle.is_enabled(&rq);
                    let granted = handle.try_allocate(&rq);
                    run.trace.push(format!(
                        "#{opi} alloc {:?} -> {}",
                        entries
                            .iter()
                            .map(|e| format!("r{}:{}:{}", e.resource, e.policy, e.amount))
                            .collect::<Vec<_>>(),
                        if granted.is_some() { "granted" } else { "refused" }
                    ));
                    if enabled != granted.is_some() {
                        alarm(
                            &mut run,
                            "C16",
                            "admission test and grant disagree",
                            format!("op {opi}: is_enabled={enabled} try_allocate={}", granted.is_some()),
                        );
                    }
                    // ---- reference feasibility
                    let mut all_feasible = true;
                    let mut any_forced = false;
                    for e in &entries {
                        let pool = &pre[e.resource as usize];
                        let feasible = match (pool, e.policy) {
                            (VerifPoolState::Sum { free, full_size }, 5) => free == full_size,
                            (VerifPoolState::Sum { free, .. }, _) => e.amount <= *free,
                            (VerifPoolState::Indexed { .. }, 5) => *pool == empty_pools[e.resource as usize],
                            (VerifPoolState::Indexed { .. }, _) => {
                                let g = group_free(pool);
                                feasible_in(&g, (1 << g.len()) - 1, e.amount)
                            }
                            (VerifPoolState::Empty, _) => false,
                        };
                        if !feasible {
                            all_feasible = false;
                        }
                        let grouped = matches!(pool, VerifPoolState::Indexed { grouped: true, .. });
                        if (e.policy == 3 || e.policy == 4) && grouped {
                            any_forced = true;
                        }
                    }
                    let last_trace = run.trace.last().cloned();
                    if granted.is_some() && !all_feasible {
                        alarm(
                            &mut run,
                            "C16",
                            "request granted although the free resources do not contain enough",
                            format!("op {opi}: {last_trace:?}"),
                        );
                    }
                    if granted.is_none() && all_feasible && !any_forced {
                        alarm(
                            &mut run,
                            "C16",
                            "non-strict request refused although the free resources contain enough",
                            format!("op {opi}: {last_trace:?} pre-state {pre:?}"),
                        );
                    }
                    if let Some(a) = granted {
                        let snap = allocation_snap(&a);
                        if any_release {
                            released_then_regrant = true;
                        }
                        // ---- exactness of the grant (C04) and policy semantics (C16)
                        for e in &entries {
                            let Some(ra) = snap.iter().find(|s| s.resource_id == e.resource as u32)
                            else {
                                alarm(
                                    &mut run,
                                    "C04",
                                    "grant misses a requested resource",
                                    format!("op {opi}: resource {}", e.resource),
                                );
                                continue;
                            };
                            let kind = &case.resources[e.resource as usize];
                            let full = match kind {
                                KindSpec::Range(n) | KindSpec::List(n) => *n as u64 * FRACTIONS,
                                KindSpec::Groups(g) => g.iter().sum::<u32>() as u64 * FRACTIONS,
                                KindSpec::Sum(s) => *s,
                            };
                            let want = if e.policy == 5 { full } else { e.amount };
                            if ra.amount != want {
                                alarm(
                                    &mut run,
                                    "C04",
                                    "granted amount differs from the requested amount",
                                    format!("op {opi}: resource {} wanted {want} got {}", e.resource, ra.amount),
                                );
                            }
                            if let KindSpec::Sum(_) = kind {
                                if !ra.indices.is_empty() {
                                    alarm(
                                        &mut run,
                                        "C04",
                                        "sum resource granted with indices",
                                        format!("op {opi}"),
                                    );
                                }
                                continue;
                            }
                            let units = want / FRACTIONS;
                            let frac = (want % FRACTIONS) as u32;
                            let whole_count = ra.indices.iter().filter(|(_, _, f)| *f == 0).count() as u64;
                            let fr: Vec<&(u32, u32, u32)> =
                                ra.indices.iter().filter(|(_, _, f)| *f != 0).collect();
                            let distinct: BTreeSet<u32> = ra.indices.iter().map(|(i, _, _)| *i).collect();
                            if distinct.len() != ra.indices.len() {
                                alarm(
                                    &mut run,
                                    "C04",
                                    "grant lists an index twice",
                                    format!("op {opi}: {:?}", ra.indices),
                                );
                            }
                            if whole_count != units {
                                alarm(
                                    &mut run,
                                    "C04",
                                    "number of whole indices differs from the integer part of the amount",
                                    format!("op {opi}: resource {} amount {want}: {:?}", e.resource, ra.indices),
                                );
                            }
                            let frac_ok = if frac == 0 {
                                fr.is_empty()
                            } else {
                                fr.len() == 1
                                    && fr[0].2 == frac
                                    && ra.indices.last().map(|l| l.2) == Some(frac)
                            };
                            if !frac_ok {
                                alarm(
                                    &mut run,
                                    "C16",
                                    "fractional remainder does not come from a single (last) index",
                                    format!("op {opi}: resource {} amount {want}: {:?}", e.resource, ra.indices),
                                );
                                alarm(
                                    &mut run,
                                    "C04",
                                    "fractional part of the grant is not exactly one partial index",
                                    format!("op {opi}: resource {} amount {want}: {:?}", e.resource, ra.indices),
                                );
                            }
                            // group semantics
                            let pool = &pre[e.resource as usize];
                            if let VerifPoolState::Indexed { grouped: true, .. } = pool {
                                let g = group_free(pool);
                                let used: BTreeSet<u32> = ra.indices.iter().map(|(_, g, _)| *g).collect();
                                let used_n = used.len() as u32;
                                if g.iter().filter(|x| x.whole > 0 || x.max_frac > 0).count() >= 2
                                    && g.iter().any(|x| {
                                        let i = g.iter().position(|y| std::ptr::eq(x, y)).unwrap();
                                        let full_g = match kind {
                                            KindSpec::Groups(gs) => gs[i],
                                            _ => 0,
                                        };
                                        x.whole < full_g
                                    })
                                {
                                    run.classes.insert("partially-used-groups".into());
                                }
                                match e.policy {
                                    0 | 1 => {
                                        let m = min_groups(&g, e.amount);
                                        if m != Some(used_n) {
                                            alarm(
                                                &mut run,
                                                "C16",
                                                "compact/tight grant does not use the smallest number of groups possible now",
                                                format!(
                                                    "op {opi}: resource {} amount {} policy {}: used groups {used:?}, minimum {m:?}, free per group {g:?}",
                                                    e.resource, e.amount, e.policy
                                                ),
                                            );
                                        }
                                    }
                                    3 | 4 => {
                                        let eg = group_free(&empty_pools[e.resource as usize]);
                                        let m = min_groups(&eg, e.amount);
                                        if m != Some(used_n) {
                                            alarm(
                                                &mut run,
                                                "C16",
                                                "strict grant does not use the smallest number of groups that could ever hold the amount",
                                                format!(
                                                    "op {opi}: resource {} amount {} policy {}: used groups {used:?}, minimum on the empty worker {m:?}",
                                                    e.resource, e.amount, e.policy
                                                ),
                                            );
                                        }
                                        run.classes.insert("strict-granted".into());
                                    }
                                    2 => {
                                        let m = max_groups(&g, e.amount);
                                        // spread of the whole indices alone
                                        let whole_used: BTreeSet<u32> = ra
                                            .indices
                                            .iter()
                                            .filter(|(_, _, f)| *f == 0)
                                            .map(|(_, g, _)| *g)
                                            .collect();
                                        let m_whole = max_groups(&g, (e.amount / FRACTIONS) * FRACTIONS);
                                        let whole_maximal = m_whole == Some(whole_used.len() as u32);
                                        if m.is_some_and(|m| used_n < m) {
                                            alarm(
                                                &mut run,
                                                "C16",
                                                if whole_maximal && frac != 0 {
                                                    "scatter: fractional remainder placed in an already used group although an unused group could hold it"
                                                } else {
                                                    "scatter grant does not spread over as many groups as currently possible"
                                                },
                                                format!(
                                                    "op {opi}: resource {} amount {}: used groups {used:?}, possible {m:?}, free per group {g:?}",
                                                    e.resource, e.amount
                                                ),
                                            );
                                        }
                                    }
                                    _ => {
                                        let all_idx = index_groups(kind).map(|v| v.len()).unwrap_or(0);
                                        if ra.indices.len() != all_idx {
                                            alarm(
                                                &mut run,
                                                "C16",
                                                "`all` did not grant every index",
                                                format!("op {opi}: resource {}", e.resource),
                                            );
                                        }
                                    }
                                }
                            } else if e.policy == 5 {
                                let all_idx = index_groups(kind).map(|v| v.len()).unwrap_or(0);
                                if ra.indices.len() != all_idx {
                                    alarm(
                                        &mut run,
                                        "C16",
                                        "`all` did not grant every index",
                                        format!("op {opi}: resource {}", e.resource),
                                    );
                                }
                            }
                            if frac != 0 {
                                run.classes.insert("fractional-grant".into());
                            }
                        }
                        live.push(Live { alloc: a, snap });
                        if live.len() >= 2 {
                            let mut counts: BTreeMap<u32, u32> = BTreeMap::new();
                            for l in &live {
                                for s in &l.snap {
                                    *counts.entry(s.resource_id).or_default() += 1;
                                }
                            }
                            if counts.values().any(|c| *c >= 2) {
                                run.classes.insert("shared-resource".into());
                            }
                        }
                    } else if any_forced {
                        run.classes.insert("strict-refused".into());
                    } else {
                        run.classes.insert("refused".into());
                    }
                    check_ledger(&mut run, case, &handle, &live, &format!("after op {opi}"));
                }
                OpSpec::Release(k) => {
                    if live.is_empty() {
                        continue;
                    }
                    let idx = (*k as usize * live.len()) >> 16;
                    let l = live.remove(idx);
                    run.trace.push(format!("#{opi} release {idx}"));
                    handle.release(l.alloc);
                    any_release = true;
                    check_ledger(&mut run, case, &handle, &live, &format!("after op {opi} (release)"));
                }
                OpSpec::ReleaseAll => {
                    for l in live.drain(..) {
                        handle.release(l.alloc);
                    }
                    run.trace.push(format!("#{opi} release-all"));
                    any_release = true;
                    check_ledger(&mut run, case, &handle, &live, &format!("after op {opi} (release all)"));
                    if handle.pools() != empty_pools {
                        // order of free indices may differ, compared as sets by check_ledger; here
                        // only the multiset matters, which check_ledger already established
                    }
                }
            }
            handle.validate();
        }
        // end: release everything; `all` of every resource must be granted
        for l in live.drain(..) {
            handle.release(l.alloc);
        }
        check_ledger(&mut run, case, &handle, &live, "after the final release");
        let rq = ResourceRequest::new(
            0,
            std::time::Duration::ZERO,
            (0..case.resources.len())
                .map(|r| ResourceAllocRequest {
                    resource_id: (r as u32).into(),
                    request: AllocationRequest::All,
                })
                .collect(),
            Default::default(),
        );
        if handle.try_allocate(&rq).is_none() {
            alarm(
                &mut run,
                "C04",
                "after every task ended not everything is available again",
                "request for `all` of every resource refused".to_string(),
            );
        }
        if released_then_regrant {
            run.classes.insert("release-then-regrant".into());
        }
    }));
    if let Err(p) = result {
        let msg = if let Some(s) = p.downcast_ref::<&str>() {
            s.to_string()
        } else if let Some(s) = p.downcast_ref::<String>() {
            s.clone()
        } else {
            "panic".to_string()
        };
        let loc = crate::sim::PANICS.with(|p| p.borrow().last().cloned());
        let detail = format!("panic in the allocator: {msg} at {:?}; trace {:?}", loc.map(|l| l.0), run.trace);
        run.alarms.retain(|a| a.0 != "C16");
        alarm(&mut run, "C16", "allocator panics", detail.clone());
        if !run.alarms.iter().any(|a| a.0 == "C04") {
            alarm(&mut run, "C04", "allocator panics", detail);
        }
    }
    run
}

pub struct AllocEngine {
    pub prop: &'static str,
}

impl Engine for AllocEngine {
    type Case = AllocCase;
    fn hang_limit_secs(&self) -> u64 {
        // cases of this engine take milliseconds
        90
    }
    fn property(&self) -> &str {
        self.prop
    }
    fn strategy(&self, tier: Tier) -> BoxedStrategy<Self::Case> {
        let max_ops = match tier {
            Tier::Quick => 40,
            Tier::Thorough => 120,
        };
        case_strategy(self.prop == "C16", max_ops)
    }
    fn quick_cases(&self) -> usize {
        if self.prop == "C16" { 4_000 } else { 6_000 }
    }
    fn thorough_cases(&self) -> usize {
        40_000
    }
    fn run(&self, case: &Self::Case) -> Outcome {
        crate::sim::install_panic_hook();
        crate::sim::PANICS.with(|p| p.borrow_mut().clear());
        // The allocator is pure computation: a sequence that does not come back within seconds is
        // a hang in the code under test. It is run on its own thread so that the search can go
        // on (a hang is inconclusive, but another case may show an actual violation); hung threads
        // are abandoned at the lowest scheduling priority (up to 400, then the global watchdog
        // takes over).
        let run = if crate::common::HUNG_CASES.load(std::sync::atomic::Ordering::Relaxed) < 400 {
            let (tx, rx) = std::sync::mpsc::channel();
            let (tx_tid, rx_tid) = std::sync::mpsc::channel();
            let c = case.clone();
            let _ = std::thread::Builder::new()
                .stack_size(16 << 20)
                .spawn(move || {
                    let _ = tx_tid.send(unsafe { libc::gettid() });
                    let _ = tx.send(execute(&c));
                });
            match rx.recv_timeout(std::time::Duration::from_secs(10)) {
                Ok(r) => r,
                Err(_) => {
                    // the abandoned thread keeps spinning: give it the lowest priority
                    if let Ok(tid) = rx_tid.try_recv() {
                        unsafe {
                            libc::setpriority(libc::PRIO_PROCESS, tid as libc::id_t, 19);
                        }
                    }
                    crate::common::note_hung_case(self.prop, case);
                    let mut out = Outcome::default();
                    out.aborted = Some("allocator did not come back within 10 s (hang)".into());
                    return out;
                }
            }
        } else {
            execute(case)
        };
        let mut out = Outcome::default();
        out.trace_hash = hash_str(&format!("{:?}{:?}", case.resources, run.trace));
        out.classes = run.classes.iter().cloned().collect();
        out.nontrivial = if self.prop == "C04" {
            run.classes.contains("shared-resource")
                && (run.classes.contains("fractional-grant")
                    || run.classes.contains("release-then-regrant"))
        } else {
            run.classes.contains("partially-used-groups")
        };
        out.summary = serde_json::json!({
            "descriptor": format!("{:?}", case.resources),
            "coupling": case.coupling,
            "ops": run.trace.iter().take(40).collect::<Vec<_>>(),
            "alarms": run.alarms.iter().map(|a| format!("{}: {} -- {}", a.0, a.1, a.2)).collect::<Vec<_>>(),
        });
        if let Some(a) = run.alarms.iter().find(|a| a.0 == self.prop) {
            out.violation = Some(Violation {
                signature: a.1.clone(),
                detail: a.2.clone(),
            });
        }
        out
    }
    fn rule(&self) -> String {
        if self.prop == "C04" {
            "ALLOC engine: random descriptors (range/list/uneven groups/sum with fractional size, 0-3 coupling items) and sequences of try_allocate / release on the real ResourceAllocator; after every operation a harness-side ledger of the live allocations is compared index by index with the pool snapshot and the concise summary. Distinct = hash of descriptor + resolved op trace. Non-trivial = at least two live allocations share a resource and there is a fractional grant or a release followed by a re-grant".into()
        } else {
            "ALLOC engine (group-heavy descriptors): every grant/refusal is compared with a brute-force reference over all group subsets of the pre-state snapshot (feasibility, minimum groups now / on the empty worker, maximum spread, `all`, single fractional index) and with is_enabled. Distinct = hash of descriptor + resolved op trace. Non-trivial = a grouped resource with at least two groups partially used at the time of a request".into()
        }
    }
    fn assumptions(&self) -> Vec<String> {
        vec![
            "requests respect the CLI rules (no zero amounts, integer amounts for compact!, one entry per resource)".into(),
            "coupling weights <= 256 and at most 3 items, so group-count minimisation dominates the documented objective".into(),
            "strict policies: only 'granted => minimal number of groups on the empty worker' is asserted; refusals of strict requests are not judged (the statement allows 'not started yet')".into(),
        ]
    }
}
