//! Engine AUTOALLOC (C17, C18): the real autoalloc state machine (handle_message /
//! perform_submits / do_periodic_update through the `autoalloc::verif` hook) against a fake batch
//! system, a real tako core as demand source and a mocked monotonic clock; reference models of
//! the documented limits, the back-off contract and the allocation life-cycle.

use std::cell::RefCell;
use std::collections::{BTreeMap, BTreeSet, VecDeque};
use std::future::Future;
use std::pin::Pin;
use std::rc::Rc;
use std::time::{Duration, Instant};

use hyperqueue::common::manager::info::{ManagerInfo, ManagerType};
use hyperqueue::common::rpc::ResponseToken;
use hyperqueue::common::utils::time::{AbsoluteTime, verif_mock_time};
use hyperqueue::server::autoalloc::verif::{
    AllocationExternalStatus, AllocationStatusMap, AllocationSubmissionResult, AutoAllocMessage,
    AutoAllocSim, QueueHandler, RateLimiter, SubmitMode,
};
use hyperqueue::server::autoalloc::{
    Allocation, AllocationState, AutoAllocResult, LostWorkerDetails, QueueId, QueueInfo,
    QueueParameters,
};
use hyperqueue::server::event::journal::EventStreamMessage;
use hyperqueue::server::event::payload::EventPayload;
use hyperqueue::server::event::streamer::EventStreamer;
use proptest::prelude::*;
use serde::{Deserialize, Serialize};
use smallvec::smallvec;
use tako::gateway::{
    LostWorkerReason, ResourceRequest, ResourceRequestEntry, ResourceRequestVariants,
    SharedTaskConfiguration, TaskConfiguration, TaskSubmit,
};
use tako::resources::{AllocationRequest, ResourceAmount, ResourceDescriptor};
use tako::verif::SimServer;
use tako::{JobId, JobTaskId, Map, TaskId, WorkerId};

use crate::common::{Engine, Outcome, Tier, Violation, hash_str, sub};
use crate::sim::palette;

#[derive(Serialize, Deserialize, Debug, Clone)]
pub struct QueueSpec {
    pub backlog: u8,
    pub workers_per_alloc: u8,
    pub max_worker_count: Option<u8>,
    /// 0 = no cli resources, 1 = cpus 4, 2 = cpus 4 + gpus 1
    pub cli_resources: u8,
    pub min_utilization_half: bool,
}

#[derive(Serialize, Deserialize, Debug, Clone)]
pub struct AutoCase {
    pub queues: Vec<QueueSpec>,
    pub max_submission_fails: u8,
    pub max_allocation_fails: u8,
    pub ops: Vec<(u16, u32)>,
}

const DELAYS: [u64; 3] = [0, 10, 40];

pub fn case_strategy(max_ops: usize) -> BoxedStrategy<AutoCase> {
    let q = (
        1u8..5,
        1u8..4,
        prop_oneof![2 => Just(None), 3 => (1u8..7).prop_map(Some)],
        0u8..3,
        any::<bool>(),
    )
        .prop_map(|(backlog, workers_per_alloc, max_worker_count, cli_resources, h)| QueueSpec {
            backlog,
            workers_per_alloc,
            max_worker_count,
            cli_resources,
            min_utilization_half: h,
        });
    (
        prop_oneof![3 => proptest::collection::vec(q.clone(), 1..2), 2 => proptest::collection::vec(q, 1..4)],
        2u8..4,
        2u8..4,
        proptest::collection::vec((any::<u16>(), any::<u32>()), 5..max_ops),
    )
        .prop_map(|(queues, s, a, ops)| AutoCase {
            queues,
            max_submission_fails: s,
            max_allocation_fails: a,
            ops,
        })
        .boxed()
}

// ------------------------------------------------------------------------------------ fake batch

#[derive(Debug, Clone, Copy, PartialEq)]
enum SubmitScript {
    Success,
    FailId,
    FailDir,
}

#[derive(Debug, Clone, PartialEq)]
enum StatusScript {
    Queued,
    Running,
    Finished,
    Failed,
    Error,
    Missing,
}

#[derive(Default)]
struct Batch {
    next_alloc: u32,
    /// (queue, worker count, mock seconds) of every submit_allocation call
    submit_calls: Vec<(QueueId, u64, u64, bool)>,
    submit_script: VecDeque<SubmitScript>,
    status_script: BTreeMap<String, StatusScript>,
    status_global_error: bool,
    status_calls: u32,
    remove_calls: Vec<String>,
    remove_fails: bool,
    now_s: u64,
    dry_runs: u32,
}

struct FakeHandler {
    batch: Rc<RefCell<Batch>>,
    dir: std::path::PathBuf,
}

impl QueueHandler for FakeHandler {
    fn submit_allocation(
        &mut self,
        queue_id: QueueId,
        _queue_info: &QueueInfo,
        worker_count: u64,
        mode: SubmitMode,
    ) -> Pin<Box<dyn Future<Output = AutoAllocResult<AllocationSubmissionResult>>>> {
        let mut b = self.batch.borrow_mut();
        if matches!(mode, SubmitMode::DryRun) {
            b.dry_runs += 1;
        }
        let script = b.submit_script.pop_front().unwrap_or(SubmitScript::Success);
        let now = b.now_s;
        b.submit_calls
            .push((queue_id, worker_count, now, script == SubmitScript::Success));
        let id = b.next_alloc;
        b.next_alloc += 1;
        let wd = self.dir.join(format!("alloc-{id}"));
        Box::pin(async move {
            match script {
                SubmitScript::Success => Ok(AllocationSubmissionResult::new(
                    Ok(format!("a{id}")),
                    wd.into(),
                )),
                SubmitScript::FailId => Ok(AllocationSubmissionResult::new(
                    Err(anyhow::anyhow!("qsub failed (harness)")),
                    wd.into(),
                )),
                SubmitScript::FailDir => Err(anyhow::anyhow!("cannot create directory (harness)")),
            }
        })
    }

    fn get_status_of_allocations(
        &self,
        allocations: &[&Allocation],
    ) -> Pin<Box<dyn Future<Output = AutoAllocResult<AllocationStatusMap>>>> {
        let mut b = self.batch.borrow_mut();
        b.status_calls += 1;
        if b.status_global_error {
            return Box::pin(async { Err(anyhow::anyhow!("qstat failed (harness)")) });
        }
        let mut map: AllocationStatusMap = Map::default();
        for a in allocations {
            let s = b
                .status_script
                .get(&a.id)
                .cloned()
                .unwrap_or(match a.status {
                    AllocationState::Queued { .. } => StatusScript::Queued,
                    _ => StatusScript::Running,
                });
            let v = match s {
                StatusScript::Queued => Ok(AllocationExternalStatus::Queued),
                StatusScript::Running => Ok(AllocationExternalStatus::Running),
                StatusScript::Finished => Ok(AllocationExternalStatus::Finished {
                    started_at: None,
                    finished_at: AbsoluteTime::now(),
                }),
                StatusScript::Failed => Ok(AllocationExternalStatus::Failed {
                    started_at: None,
                    finished_at: AbsoluteTime::now(),
                }),
                StatusScript::Error => Err(anyhow::anyhow!("status error (harness)")),
                StatusScript::Missing => continue,
            };
            map.insert(a.id.clone(), v);
        }
        Box::pin(async move { Ok(map) })
    }

    fn remove_allocation(
        &self,
        allocation: &Allocation,
    ) -> Pin<Box<dyn Future<Output = AutoAllocResult<()>>>> {
        let mut b = self.batch.borrow_mut();
        b.remove_calls.push(allocation.id.clone());
        let fail = b.remove_fails;
        Box::pin(async move {
            if fail {
                Err(anyhow::anyhow!("qdel failed (harness)"))
            } else {
                Ok(())
            }
        })
    }
}

// ------------------------------------------------------------------------------------ models

#[derive(Debug, Clone, Copy, PartialEq, Eq, PartialOrd, Ord)]
enum AKind {
    Queued,
    Running,
    Finished,
    FinishedUnexpectedly,
}

fn kind_of(a: &Allocation) -> AKind {
    match a.status {
        AllocationState::Queued { .. } => AKind::Queued,
        AllocationState::Running { .. } => AKind::Running,
        AllocationState::Finished { .. } => AKind::Finished,
        AllocationState::FinishedUnexpectedly { .. } => AKind::FinishedUnexpectedly,
    }
}

#[derive(Debug, Clone)]
struct AllocModel {
    queue: QueueId,
    target: u64,
    kind: AKind,
    connected: BTreeSet<u32>,
    lost_while_running: BTreeSet<u32>,
    /// lost worker -> lost by a failure shortly after it connected
    crashed: BTreeMap<u32, bool>,
    queued_events: u32,
    started_events: u32,
    finished_events: u32,
    /// the statement does not define a loss while the allocation is still queued
    undefined_history: bool,
    status_errors: u32,
    finished_step: Option<usize>,
}

#[derive(Debug, Clone, PartialEq, Eq, PartialOrd, Ord)]
struct LimiterModel {
    level: usize,
    sub_fails: u64,
    alloc_fails: u64,
    last_attempt: Option<u64>,
}

#[derive(Debug, Clone, Copy, PartialEq)]
enum LimEv {
    AllocSuccess,
    AllocFail,
}

impl LimiterModel {
    fn apply(&mut self, ev: LimEv) {
        match ev {
            LimEv::AllocSuccess => {
                self.alloc_fails = 0;
                self.level = 0;
            }
            LimEv::AllocFail => {
                self.alloc_fails += 1;
                self.level = (self.level + 1).min(DELAYS.len() - 1);
            }
        }
    }
}

/// The order in which one periodic update processes the allocations of a queue is not
/// specified: all orders are possible outcomes.
fn apply_unordered(states: &mut Vec<LimiterModel>, evs: &[LimEv]) {
    if evs.is_empty() {
        return;
    }
    let mut out: BTreeSet<LimiterModel> = BTreeSet::new();
    let n = evs.len().min(6);
    let mut idx: Vec<usize> = (0..n).collect();
    // Heap's algorithm
    fn heap(k: usize, idx: &mut Vec<usize>, f: &mut dyn FnMut(&[usize])) {
        if k == 1 {
            f(idx);
            return;
        }
        for i in 0..k {
            heap(k - 1, idx, f);
            if k % 2 == 0 {
                idx.swap(i, k - 1);
            } else {
                idx.swap(0, k - 1);
            }
        }
    }
    let base = states.clone();
    heap(n, &mut idx, &mut |perm: &[usize]| {
        for st in &base {
            let mut s2 = st.clone();
            for i in perm {
                s2.apply(evs[*i]);
            }
            for e in &evs[n..] {
                s2.apply(*e);
            }
            out.insert(s2);
        }
    });
    *states = out.into_iter().collect();
}

#[derive(Debug, Clone)]
struct QueueModel {
    spec: QueueSpec,
    /// all limiter states that are possible given what the statement leaves open
    limiter: Vec<LimiterModel>,
    removed: bool,
    /// resources learned from a connected worker (then the query is exact)
    known_resources: bool,
    paused_by_user: bool,
}

pub struct AutoRun {
    pub alarms: Vec<(&'static str, String, String)>,
    pub classes: BTreeSet<String>,
    pub trace: Vec<String>,
}

fn alarm(run: &mut AutoRun, prop: &'static str, sig: &str, detail: String) {
    if !run.alarms.iter().any(|a| a.0 == prop && a.1 == sig) {
        run.alarms.push((prop, sig.to_string(), detail));
    }
}

fn queue_params(spec: &QueueSpec) -> QueueParameters {
    QueueParameters {
        manager: ManagerType::Slurm,
        max_workers_per_alloc: spec.workers_per_alloc as u32,
        backlog: spec.backlog as u32,
        timelimit: Duration::from_secs(3600),
        name: None,
        max_worker_count: spec.max_worker_count.map(|x| x as u32),
        min_utilization: if spec.min_utilization_half { 0.5 } else { 0.0 },
        additional_args: vec![],
        worker_start_cmd: None,
        worker_stop_cmd: None,
        worker_wrap_cmd: None,
        cli_resource_descriptor: match spec.cli_resources {
            0 => None,
            1 => Some(ResourceDescriptor::simple_cpus(4)),
            _ => Some(ResourceDescriptor::new(
                vec![
                    tako::resources::ResourceDescriptorItem::range("cpus", 0, 3),
                    tako::resources::ResourceDescriptorItem::range("gpus", 0, 0),
                ],
                Default::default(),
            )),
        },
        worker_args: vec![],
        idle_timeout: None,
    }
}

fn demand_request(kind: usize) -> ResourceRequestVariants {
    let e = |name: &str, units: u32| ResourceRequestEntry {
        resource: name.to_string(),
        policy: AllocationRequest::Compact(ResourceAmount::new_units(units)),
    };
    let rq = |entries: Vec<ResourceRequestEntry>, n_nodes: u32| ResourceRequest {
        n_nodes,
        resources: entries.into_iter().collect(),
        min_time: Duration::ZERO,
        weight: Default::default(),
    };
    ResourceRequestVariants::new(smallvec![match kind {
        0 => rq(vec![e("cpus", 1)], 0),
        1 => rq(vec![e("cpus", 64)], 0),
        2 => rq(vec![e("cpus", 1), e("gpus", 1)], 0),
        _ => rq(vec![], 2),
    }])
}

/// Could a task of `kind` run on a worker of the queue, as far as the server can know?
fn fits(kind: usize, q: &QueueModel) -> bool {
    // what the server knows about the workers of the queue
    let (cpus, gpus, partial): (Option<u32>, Option<u32>, bool) = if q.known_resources {
        // workers connected by the harness always have 4 cpus and no gpus
        (Some(4), Some(0), false)
    } else {
        match q.spec.cli_resources {
            0 => (None, None, true),
            1 => (Some(4), None, true),
            _ => (Some(4), Some(1), true),
        }
    };
    let ok = |have: Option<u32>, need: u32| match have {
        Some(h) => need <= h,
        None => partial,
    };
    match kind {
        0 => ok(cpus, 1),
        1 => ok(cpus, 64),
        2 => ok(cpus, 1) && ok(gpus, 1),
        _ => q.spec.workers_per_alloc >= 2,
    }
}

struct NullProcessor;
impl tako::events::EventProcessor for NullProcessor {
    fn on_task_finished(&mut self, _: TaskId) {}
    fn on_task_started(
        &mut self,
        _: TaskId,
        _: tako::InstanceId,
        _: &[WorkerId],
        _: tako::ResourceVariantId,
        _: tako::task::SerializedTaskContext,
    ) {
    }
    fn on_task_error(
        &mut self,
        _: TaskId,
        _: Vec<TaskId>,
        _: tako::internal::messages::common::TaskFailInfo,
    ) -> Vec<TaskId> {
        Vec::new()
    }
    fn on_worker_new(&mut self, _: WorkerId, _: &tako::worker::WorkerConfiguration) {}
    fn on_worker_lost(&mut self, _: WorkerId, _: &[TaskId], _: LostWorkerReason) {}
    fn on_worker_overview(&mut self, _: Box<tako::worker::WorkerOverview>) {}
    fn on_task_notify(&mut self, _: TaskId, _: WorkerId, _: Box<[u8]>) {}
}

pub fn execute(case: &AutoCase) -> AutoRun {
    let mut run = AutoRun {
        alarms: Vec::new(),
        classes: BTreeSet::new(),
        trace: Vec::new(),
    };
    let rt = tokio::runtime::Builder::new_current_thread()
        .enable_all()
        .start_paused(true)
        .build()
        .unwrap();
    let base_instant = Instant::now();
    verif_mock_time::set(Some(base_instant));
    let dir = crate::sim::thread_dir().join("autoalloc");
    let _ = std::fs::create_dir_all(&dir);
    rt.block_on(async {
        let server = SimServer::new(Default::default(), "uid".to_string(), WorkerId::new(0), None);
        let server_ref = server.server_ref();
        server_ref.set_client_events(Box::new(NullProcessor));
        let (tx, mut rx) = tokio::sync::mpsc::unbounded_channel::<EventStreamMessage>();
        let events = EventStreamer::new(Some(tx));
        let mut sim = AutoAllocSim::new(server_ref.clone(), events, 1);
        let batch = Rc::new(RefCell::new(Batch::default()));
        let mut queues: BTreeMap<QueueId, QueueModel> = BTreeMap::new();
        for spec in &case.queues {
            let limiter = RateLimiter::new(
                DELAYS.iter().map(|s| Duration::from_secs(*s)).collect(),
                case.max_submission_fails as u64,
                case.max_allocation_fails as u64,
            );
            let id = sim.add_queue(
                queue_params(spec),
                Box::new(FakeHandler {
                    batch: batch.clone(),
                    dir: dir.clone(),
                }),
                limiter,
                None,
            );
            queues.insert(
                id,
                QueueModel {
                    spec: spec.clone(),
                    limiter: vec![LimiterModel {
                        level: 0,
                        sub_fails: 0,
                        alloc_fails: 0,
                        last_attempt: None,
                    }],
                    removed: false,
                    known_resources: false,
                    paused_by_user: false,
                },
            );
        }
        let mut allocs: BTreeMap<String, AllocModel> = BTreeMap::new();
        let mut last_kind: BTreeMap<String, AKind> = BTreeMap::new();
        let mut now_s: u64 = 0;
        let mut demand: BTreeMap<usize, Vec<TaskId>> = BTreeMap::new(); // kind -> waiting tasks
        let mut next_job: u32 = 1;
        let mut next_worker: u32 = 1;
        let mut removed_queue_events: BTreeMap<QueueId, u32> = BTreeMap::new();
        let mut expect_resume_submit: Option<QueueId> = None;

        for (step, (c, a)) in case.ops.iter().enumerate() {
            let a = *a;
            let before_calls = batch.borrow().submit_calls.len();
            let before_removes = batch.borrow().remove_calls.len();
            let snap_before = sim.snapshot();
            let paused_before: BTreeMap<QueueId, bool> =
                snap_before.iter().map(|q| (q.id, q.paused)).collect();
            let live_queues: Vec<QueueId> = snap_before.iter().map(|q| q.id).collect();
            let all_allocs: Vec<String> = allocs.keys().cloned().collect();
            let mut kind = (*c as usize * 100) >> 16;
            // steer toward the resume choreography (pause by failures -> resume -> wait -> tick),
            // which plain random choice almost never completes
            let auto_paused: Vec<QueueId> = snap_before
                .iter()
                .filter(|q| q.paused && !queues.get(&q.id).is_some_and(|m| m.paused_by_user))
                .map(|q| q.id)
                .collect();
            let mut forced_queue: Option<QueueId> = None;
            if let Some(q) = expect_resume_submit {
                if *c % 4 != 0 {
                    let elapsed = queues.get(&q).is_some_and(|m| {
                        m.limiter.iter().all(|st| {
                            st.last_attempt
                                .is_none_or(|l| now_s - l >= DELAYS[DELAYS.len() - 1])
                        })
                    });
                    kind = if elapsed { 20 } else { 99 };
                }
            } else if !auto_paused.is_empty() && *c % 3 != 0 {
                kind = 92;
                forced_queue = Some(auto_paused[0]);
            }
            let mut ticked = false;
            let mut unknown_msg = false;
            let mut removed_now: Option<(QueueId, Vec<String>, Vec<String>)> = None;
            let desc = match kind {
                0..=11 => {
                    // job submit = demand
                    let k = [0usize, 0, 0, 1, 2, 3][sub(a, 1, 6)];
                    let n = 1 + sub(a, 2, 4);
                    let rq_id = server_ref.get_or_create_resource_rq_id(&demand_request(k));
                    let job = JobId::new(next_job);
                    next_job += 1;
                    let tasks: Vec<TaskConfiguration> = (0..n as u32)
                        .map(|i| TaskConfiguration {
                            id: TaskId::new(job, JobTaskId::new(i)),
                            resource_rq_id: rq_id,
                            shared_data_index: 0,
                            task_deps: Default::default(),
                            entry: None,
                        })
                        .collect();
                    let ids: Vec<TaskId> = tasks.iter().map(|t| t.id).collect();
                    server_ref
                        .add_new_tasks(TaskSubmit {
                            tasks,
                            shared_data: vec![SharedTaskConfiguration {
                                time_limit: None,
                                priority: 0.into(),
                                crash_limit: Default::default(),
                                body: Rc::from(Vec::new().into_boxed_slice()),
                            }],
                            adjust_instance_id_and_crash_counters: Default::default(),
                        })
                        .unwrap();
                    demand.entry(k).or_default().extend(ids);
                    sim.handle_message(AutoAllocMessage::JobSubmitted(job)).await;
                    format!("submit job kind={k} n={n}")
                }
                12..=15 => {
                    // demand goes away
                    let all: Vec<TaskId> = demand.values().flatten().copied().collect();
                    server_ref.cancel_tasks(&all);
                    demand.clear();
                    "cancel all tasks".to_string()
                }
                16..=45 => {
                    // scheduling tick; the batch system answers according to the script
                    let mut b = batch.borrow_mut();
                    b.submit_script.clear();
                    for i in 0..8 {
                        let x = sub(a, 10 + i, 8);
                        let fail_prone = case.max_submission_fails % 2 == 0 && expect_resume_submit.is_none();
                        b.submit_script.push_back(match x {
                            0 | 1 => SubmitScript::FailId,
                            2 => SubmitScript::FailDir,
                            3..=5 if fail_prone => SubmitScript::FailId,
                            _ => SubmitScript::Success,
                        });
                    }
                    b.now_s = now_s;
                    drop(b);
                    ticked = true;
                    if let Err(e) = sim.perform_submits().await {
                        run.trace.push(format!("#{step} tick error {e:?}"));
                    }
                    "tick".to_string()
                }
                46..=57 => {
                    // periodic update with generated status answers
                    let mut b = batch.borrow_mut();
                    b.status_script.clear();
                    b.status_global_error = sub(a, 3, 10) == 0;
                    for (i, id) in all_allocs.iter().enumerate() {
                        let s = match sub(a, 20 + i as u32, 12) {
                            0 => StatusScript::Queued,
                            1 | 2 => StatusScript::Running,
                            3 => StatusScript::Finished,
                            4 => StatusScript::Failed,
                            5 | 6 => StatusScript::Error,
                            7 => StatusScript::Missing,
                            _ => continue,
                        };
                        b.status_script.insert(id.clone(), s);
                    }
                    let script = b.status_script.clone();
                    let ge = b.status_global_error;
                    drop(b);
                    // a streak: the same answers for many updates in a row (status-error streaks
                    // end in giving the allocation up)
                    let reps = if sub(a, 2, 5) == 0 { [11usize, 21, 26][sub(a, 1, 3)] } else { 1 };
                    if reps > 1 {
                        run.classes.insert("status-streak".into());
                    }
                    for _rep in 0..reps {
                    // model of the documented transition table; the update only happens while
                    // at least one queue is active (as in the autoalloc event loop)
                    let any_active = sim.snapshot().iter().any(|q| !q.paused);
                    sim.periodic_update().await;
                    let snap = sim.snapshot();
                    let mut evs: BTreeMap<QueueId, Vec<LimEv>> = BTreeMap::new();
                    for q in &snap {
                        if !any_active {
                            break;
                        }
                        for al in &q.allocations {
                            let Some(m) = allocs.get_mut(&al.id) else { continue };
                            if ge || m.kind >= AKind::Finished {
                                continue;
                            }
                            let s = script.get(&al.id).cloned().unwrap_or(match m.kind {
                                AKind::Queued => StatusScript::Queued,
                                _ => StatusScript::Running,
                            });
                            match (m.kind, s) {
                                (AKind::Queued, StatusScript::Running) => m.kind = AKind::Running,
                                (_, StatusScript::Finished) => {
                                    m.kind = AKind::FinishedUnexpectedly;
                                    m.finished_step = Some(step);
                                    evs.entry(m.queue).or_default().push(LimEv::AllocSuccess);
                                }
                                (_, StatusScript::Failed) | (_, StatusScript::Missing) => {
                                    m.kind = AKind::FinishedUnexpectedly;
                                    m.finished_step = Some(step);
                                    evs.entry(m.queue).or_default().push(LimEv::AllocFail);
                                }
                                _ => {}
                            }
                        }
                    }
                    for (q, e) in evs {
                        if let Some(qm) = queues.get_mut(&q) {
                            apply_unordered(&mut qm.limiter, &e);
                        }
                    }
                    // status errors: after more than 10 (queued) / 20 (running) errors in a row the
                    // allocation is given up; the counters are not modelled, such allocations are
                    // excluded from the life-cycle comparison from their first status error on
                    if any_active {
                        for (id, m) in allocs.iter_mut() {
                            if m.kind < AKind::Finished
                                && (ge || script.get(id) == Some(&StatusScript::Error))
                            {
                                m.status_errors += 1;
                            }
                        }
                        // an allocation with status errors is given up after a number of them
                        // that the statement does not fix: the model follows the real state there
                        for q in &snap {
                            for al in &q.allocations {
                                if let Some(m) = allocs.get_mut(&al.id) {
                                    if m.status_errors > 0
                                        && m.kind < AKind::Finished
                                        && kind_of(al) >= AKind::Finished
                                    {
                                        m.kind = kind_of(al);
                                        m.finished_step = Some(step);
                                    }
                                }
                            }
                        }
                    }
                    }
                    format!("periodic update x{reps} global_error={ge} script={script:?}")
                }
                58..=72 => {
                    // worker connects from a known or unknown allocation
                    let known = !all_allocs.is_empty() && sub(a, 4, 6) != 0;
                    let alloc_id = if known {
                        all_allocs[sub(a, 5, all_allocs.len())].clone()
                    } else {
                        unknown_msg = true;
                        "nonexistent".to_string()
                    };
                    let wid = if sub(a, 6, 5) == 0 && next_worker > 1 {
                        // duplicate connect of an earlier worker id
                        1 + sub(a, 7, (next_worker - 1) as usize) as u32
                    } else {
                        next_worker += 1;
                        next_worker - 1
                    };
                    let cfg = palette::worker_configuration(
                        ResourceDescriptor::simple_cpus(4),
                        "a",
                        None,
                        wid as usize,
                    );
                    let info = ManagerInfo {
                        manager: ManagerType::Slurm,
                        allocation_id: alloc_id.clone(),
                        time_limit: None,
                        max_memory_mb: None,
                    };
                    sim.handle_message(AutoAllocMessage::WorkerConnected {
                        id: WorkerId::new(wid),
                        config: cfg,
                        manager_info: info,
                    })
                    .await;
                    if let Some(m) = allocs.get_mut(&alloc_id) {
                        if !queues.get(&m.queue).is_some_and(|q| q.removed) {
                            if let Some(qm) = queues.get_mut(&m.queue) {
                                qm.known_resources = true;
                            }
                            match m.kind {
                                AKind::Queued => {
                                    m.kind = AKind::Running;
                                    m.connected.insert(wid);
                                }
                                AKind::Running => {
                                    m.connected.insert(wid);
                                }
                                _ => {}
                            }
                        }
                    }
                    format!("worker {wid} connects from {alloc_id}")
                }
                73..=87 => {
                    // worker lost
                    let known = !all_allocs.is_empty() && sub(a, 4, 6) != 0;
                    let alloc_id = if known {
                        all_allocs[sub(a, 5, all_allocs.len())].clone()
                    } else {
                        unknown_msg = true;
                        "nonexistent".to_string()
                    };
                    let connected: Vec<u32> = allocs
                        .get(&alloc_id)
                        .map(|m| m.connected.iter().copied().collect())
                        .unwrap_or_default();
                    let wid = if !connected.is_empty() && sub(a, 6, 4) != 0 {
                        connected[sub(a, 7, connected.len())]
                    } else if next_worker > 1 && sub(a, 8, 2) == 0 {
                        1 + sub(a, 9, (next_worker - 1) as usize) as u32
                    } else {
                        next_worker += 1;
                        next_worker - 1
                    };
                    let reason = [
                        LostWorkerReason::ConnectionLost,
                        LostWorkerReason::HeartbeatLost,
                        LostWorkerReason::Stopped,
                        LostWorkerReason::TimeLimitReached,
                        LostWorkerReason::IdleTimeout,
                    ][sub(a, 10, 5)];
                    let quick = sub(a, 11, 2) == 0;
                    let details = LostWorkerDetails {
                        reason,
                        lifetime: Duration::from_secs(if quick { 5 } else { 600 }),
                    };
                    let info = ManagerInfo {
                        manager: ManagerType::Slurm,
                        allocation_id: alloc_id.clone(),
                        time_limit: None,
                        max_memory_mb: None,
                    };
                    sim.handle_message(AutoAllocMessage::WorkerLost(
                        WorkerId::new(wid),
                        info,
                        details,
                    ))
                    .await;
                    if let Some(m) = allocs.get_mut(&alloc_id) {
                        if !queues.get(&m.queue).is_some_and(|q| q.removed) {
                            match m.kind {
                                AKind::Queued => m.undefined_history = true,
                                AKind::Running => {
                                    m.connected.remove(&wid);
                                    m.lost_while_running.insert(wid);
                                    m.crashed_all_update(
                                        wid,
                                        matches!(
                                            reason,
                                            LostWorkerReason::ConnectionLost
                                                | LostWorkerReason::HeartbeatLost
                                        ) && quick,
                                    );
                                    if m.lost_while_running.len() as u64 == m.target {
                                        m.kind = AKind::Finished;
                                        m.finished_step = Some(step);
                                        let failed = m.all_crashed();
                                        if let Some(qm) = queues.get_mut(&m.queue) {
                                            for st in qm.limiter.iter_mut() {
                                                st.apply(if failed {
                                                    LimEv::AllocFail
                                                } else {
                                                    LimEv::AllocSuccess
                                                });
                                            }
                                        }
                                    }
                                }
                                _ => {}
                            }
                        }
                    }
                    format!("worker {wid} lost from {alloc_id} ({reason:?}, quick={quick})")
                }
                88..=90 => {
                    if live_queues.is_empty() {
                        continue;
                    }
                    let q = live_queues[sub(a, 1, live_queues.len())];
                    let (t, r) = ResponseToken::new();
                    sim.handle_message(AutoAllocMessage::PauseQueue { id: q, response: t })
                        .await;
                    let _ = r.await;
                    if let Some(qm) = queues.get_mut(&q) {
                        qm.paused_by_user = true;
                    }
                    // a queue that the user pauses again is not expected to submit
                    if expect_resume_submit == Some(q) {
                        expect_resume_submit = None;
                    }
                    format!("pause queue {q}")
                }
                91..=94 => {
                    if live_queues.is_empty() {
                        continue;
                    }
                    let q = forced_queue.unwrap_or(live_queues[sub(a, 1, live_queues.len())]);
                    let (t, r) = ResponseToken::new();
                    sim.handle_message(AutoAllocMessage::ResumeQueue { id: q, response: t })
                        .await;
                    let _ = r.await;
                    if paused_before.get(&q) == Some(&true) {
                        expect_resume_submit = Some(q);
                        run.classes.insert("resume-of-paused-queue".into());
                        if !queues.get(&q).is_some_and(|m| m.paused_by_user) {
                            run.classes.insert("resume-after-automatic-pause".into());
                        }
                    }
                    if let Some(qm) = queues.get_mut(&q) {
                        qm.paused_by_user = false;
                        // a resumed queue starts counting failures from zero (otherwise it could
                        // never submit again after an automatic pause)
                        for st in qm.limiter.iter_mut() {
                            st.sub_fails = 0;
                            st.alloc_fails = 0;
                        }
                    }
                    format!("resume queue {q}")
                }
                95..=96 => {
                    if live_queues.is_empty() {
                        continue;
                    }
                    let q = live_queues[sub(a, 1, live_queues.len())];
                    let force = sub(a, 2, 2) == 0;
                    batch.borrow_mut().remove_fails = sub(a, 3, 4) == 0;
                    let qs = snap_before.iter().find(|x| x.id == q).unwrap();
                    let active: Vec<String> = qs
                        .allocations
                        .iter()
                        .filter(|x| x.is_active())
                        .map(|x| x.id.clone())
                        .collect();
                    let all: Vec<String> = qs.allocations.iter().map(|x| x.id.clone()).collect();
                    let (t, r) = ResponseToken::new();
                    sim.handle_message(AutoAllocMessage::RemoveQueue {
                        id: q,
                        force,
                        response: t,
                    })
                    .await;
                    let res = r.await;
                    let ok = matches!(res, Ok(Ok(())));
                    if ok {
                        removed_now = Some((q, active, all));
                        if let Some(qm) = queues.get_mut(&q) {
                            qm.removed = true;
                        }
                        if expect_resume_submit == Some(q) {
                            expect_resume_submit = None;
                        }
                    }
                    format!("remove queue {q} force={force} -> {ok}")
                }
                _ => {
                    let d = if kind == 99 && expect_resume_submit.is_some() {
                        200
                    } else {
                        [1u64, 5, 11, 45, 200][sub(a, 1, 5)]
                    };
                    now_s += d;
                    verif_mock_time::set(Some(base_instant + Duration::from_secs(now_s)));
                    tokio::time::advance(Duration::from_secs(d)).await;
                    format!("advance {d}s")
                }
            };
            run.trace.push(format!("#{step} {desc}"));

            // ---------------------------------------------------------------- events
            let mut ev_queued: Vec<(QueueId, String, u64)> = Vec::new();
            while let Ok(m) = rx.try_recv() {
                if let EventStreamMessage::Event(e) = m {
                    match e.payload {
                        EventPayload::AllocationQueued {
                            queue_id,
                            allocation_id,
                            worker_count,
                        } => ev_queued.push((queue_id, allocation_id, worker_count)),
                        EventPayload::AllocationStarted(_, id) => {
                            if let Some(m) = allocs.get_mut(&id) {
                                m.started_events += 1;
                                if m.started_events > 1 {
                                    alarm(&mut run, "C18", "allocation start announced more than once", format!("step {step}: {id}"));
                                }
                                if m.finished_events > 0 {
                                    alarm(&mut run, "C18", "allocation start announced after its end", format!("step {step}: {id}"));
                                }
                            }
                        }
                        EventPayload::AllocationFinished(_, id) => {
                            if let Some(m) = allocs.get_mut(&id) {
                                m.finished_events += 1;
                                if m.finished_events > 1 {
                                    alarm(&mut run, "C18", "allocation end announced more than once", format!("step {step}: {id}"));
                                }
                            }
                        }
                        EventPayload::AllocationQueueRemoved(q) => {
                            *removed_queue_events.entry(q).or_default() += 1;
                        }
                        _ => {}
                    }
                }
            }
            // new allocations (created by successful submits of this step)
            for (q, id, wc) in ev_queued {
                if allocs.contains_key(&id) {
                    alarm(&mut run, "C18", "allocation queued twice", format!("step {step}: {id}"));
                    continue;
                }
                allocs.insert(
                    id,
                    AllocModel {
                        queue: q,
                        target: wc,
                        kind: AKind::Queued,
                        connected: BTreeSet::new(),
                        lost_while_running: BTreeSet::new(),
                        crashed: BTreeMap::new(),
                        queued_events: 1,
                        started_events: 0,
                        finished_events: 0,
                        undefined_history: false,
                        status_errors: 0,
                        finished_step: None,
                    },
                );
            }

            // ---------------------------------------------------------------- C17: submit calls
            let calls: Vec<(QueueId, u64, u64, bool)> =
                batch.borrow().submit_calls[before_calls..].to_vec();
            if !calls.is_empty() && !ticked {
                alarm(&mut run, "C17", "allocation submitted outside of a scheduling tick", format!("step {step}: {calls:?}"));
            }
            let mut per_queue: BTreeMap<QueueId, Vec<(u64, bool)>> = BTreeMap::new();
            for (q, wc, _, ok) in &calls {
                per_queue.entry(*q).or_default().push((*wc, *ok));
            }
            for (q, cs) in &per_queue {
                run.classes.insert("submission".into());
                let Some(qm) = queues.get_mut(q) else { continue };
                for (wc, _) in cs {
                    if *wc == 0 || *wc > qm.spec.workers_per_alloc as u64 {
                        alarm(&mut run, "C17", "allocation asks for no workers or for more than allowed per allocation", format!("step {step}: queue {q} asked for {wc} workers, limit {}", qm.spec.workers_per_alloc));
                    }
                }
                if paused_before.get(q) == Some(&true) {
                    alarm(&mut run, "C17", "allocation submitted for a paused queue", format!("step {step}: queue {q}"));
                }
                // demand
                let has_demand = demand
                    .iter()
                    .any(|(k, ts)| !ts.is_empty() && fits(*k, qm));
                if !has_demand {
                    alarm(&mut run, "C17", "allocation submitted although no waiting task could run on the queue's workers", format!("step {step}: queue {q}, waiting task kinds {:?}", demand.iter().filter(|(_, t)| !t.is_empty()).map(|(k, _)| *k).collect::<Vec<_>>()));
                }
                // back-off: violated only if it is violated in every possible limiter state
                let too_soon = qm.limiter.iter().all(|st| {
                    st.last_attempt
                        .is_some_and(|last| now_s - last < DELAYS[st.level])
                });
                if too_soon {
                    let st = &qm.limiter[0];
                    alarm(&mut run, "C17", "submission attempted sooner than the current back-off delay", format!("step {step}: queue {q}: {}s after the previous attempt, back-off level {} = {}s", now_s - st.last_attempt.unwrap_or(0), st.level, DELAYS[st.level]));
                }
                let limit_reached = qm.limiter.iter().all(|st| {
                    st.sub_fails >= case.max_submission_fails as u64
                        || st.alloc_fails >= case.max_allocation_fails as u64
                });
                if limit_reached {
                    alarm(&mut run, "C17", "submission attempted although the failure limit was reached", format!("step {step}: queue {q}: {:?}", qm.limiter));
                }
                // states in which the attempt was not allowed are ruled out by the attempt itself
                let allowed: Vec<LimiterModel> = qm
                    .limiter
                    .iter()
                    .filter(|st| {
                        !st.last_attempt
                            .is_some_and(|last| now_s - last < DELAYS[st.level])
                            && st.sub_fails < case.max_submission_fails as u64
                            && st.alloc_fails < case.max_allocation_fails as u64
                    })
                    .cloned()
                    .collect();
                if !allowed.is_empty() {
                    qm.limiter = allowed;
                }
                for st in qm.limiter.iter_mut() {
                    st.last_attempt = Some(now_s);
                    for (_, ok) in cs {
                        if *ok {
                            st.sub_fails = 0;
                            if st.alloc_fails == 0 {
                                st.level = 0;
                            }
                        } else {
                            st.sub_fails += 1;
                            st.level = (st.level + 1).min(DELAYS.len() - 1);
                        }
                    }
                }
                if cs.iter().any(|(_, ok)| !*ok) {
                    run.classes.insert("failed-submission".into());
                }
                if expect_resume_submit == Some(*q) {
                    expect_resume_submit = None;
                    run.classes.insert("submission-after-resume".into());
                }
            }

            // ---------------------------------------------------------------- snapshot invariants
            let snap = sim.snapshot();
            for q in &snap {
                let Some(qm) = queues.get(&q.id) else { continue };
                let n_queued = q
                    .allocations
                    .iter()
                    .filter(|a| matches!(a.status, AllocationState::Queued { .. }))
                    .count();
                if n_queued > qm.spec.backlog as usize {
                    alarm(&mut run, "C17", "more allocations waiting in the batch system than the backlog", format!("step {step}: queue {} has {n_queued} queued, backlog {}", q.id, qm.spec.backlog));
                }
                let active: u64 = q
                    .allocations
                    .iter()
                    .filter(|a| a.is_active())
                    .map(|a| a.target_worker_count)
                    .sum();
                if let Some(max) = qm.spec.max_worker_count {
                    if active > max as u64 {
                        alarm(&mut run, "C17", "workers of queued plus running allocations exceed the maximum worker count", format!("step {step}: queue {} requests {active}, max {max}", q.id));
                    }
                }
                // pause after the configured number of failures (checked after a tick)
                if ticked
                    && qm.limiter.iter().all(|st| {
                        st.sub_fails >= case.max_submission_fails as u64
                            || st.alloc_fails >= case.max_allocation_fails as u64
                    })
                {
                    run.classes.insert("failure-limit-reached".into());
                    if !q.paused {
                        alarm(&mut run, "C17", "queue not paused after the configured number of consecutive failures", format!("step {step}: queue {} {:?}", q.id, qm.limiter));
                    }
                }
                if q.paused {
                    run.classes.insert("queue-paused".into());
                }
                // C18: per allocation
                for al in &q.allocations {
                    let Some(m) = allocs.get(&al.id) else {
                        alarm(&mut run, "C18", "allocation exists without having been announced as queued", format!("step {step}: {}", al.id));
                        continue;
                    };
                    let k = kind_of(al);
                    if m.undefined_history || m.status_errors > 0 {
                        // outside the modelled part of the life-cycle (status errors, loss while
                        // queued): what does not depend on *when* the allocation ends still holds
                        if let Some(prev) = last_kind.get(&al.id) {
                            if k < *prev {
                                alarm(&mut run, "C18", "allocation moved backwards in its life-cycle", format!("step {step}: {} was {prev:?}, is {k:?}", al.id));
                            } else if *prev >= AKind::Finished && k != *prev {
                                alarm(&mut run, "C18", "allocation left a finished state", format!("step {step}: {} was {prev:?}, is {k:?}", al.id));
                            }
                        }
                        last_kind.insert(al.id.clone(), k);
                        let finished = k >= AKind::Finished;
                        if finished && m.finished_events != 1 {
                            alarm(&mut run, "C18", "end of an allocation not announced exactly once", format!("step {step}: {} is {k:?} (after status errors), {} end announcements", al.id, m.finished_events));
                        }
                        if !finished && m.finished_events != 0 {
                            alarm(&mut run, "C18", "end of an allocation announced although it is still active", format!("step {step}: {}", al.id));
                        }
                        if m.started_events > 1 {
                            alarm(&mut run, "C18", "start of an allocation announced more than once", format!("step {step}: {}", al.id));
                        }
                        if finished && m.status_errors > 10 {
                            run.classes.insert("given-up-after-status-errors".into());
                        }
                        continue;
                    }
                    last_kind.insert(al.id.clone(), k);
                    if k != m.kind {
                        let sig = if k < m.kind {
                            "allocation moved backwards in its life-cycle"
                        } else if m.kind >= AKind::Finished {
                            "allocation left a finished state"
                        } else if k == AKind::Finished {
                            "allocation finished normally although not all of its workers were lost"
                        } else if m.kind == AKind::Finished {
                            "allocation did not finish although the number of distinct lost workers reached its size"
                        } else {
                            "allocation state differs from the documented life-cycle"
                        };
                        alarm(&mut run, "C18", sig, format!("step {step}: {} is {k:?}, life-cycle model says {:?} (target {}, connected {:?}, lost {:?})", al.id, m.kind, m.target, m.connected, m.lost_while_running));
                    }
                    if let AllocationState::Running {
                        connected_workers, ..
                    } = &al.status
                    {
                        let got: BTreeSet<u32> =
                            connected_workers.iter().map(|w| w.as_num()).collect();
                        if k == m.kind && got != m.connected {
                            alarm(&mut run, "C18", "connected workers of a running allocation are not exactly those that connected and were not lost", format!("step {step}: {} has {got:?}, expected {:?}", al.id, m.connected));
                        }
                    }
                    let finished = k >= AKind::Finished;
                    if finished && m.finished_events != 1 {
                        alarm(&mut run, "C18", "end of an allocation not announced exactly once", format!("step {step}: {} is {k:?}, {} end announcements", al.id, m.finished_events));
                    }
                    if !finished && m.finished_events != 0 {
                        alarm(&mut run, "C18", "end of an allocation announced although it is still active", format!("step {step}: {}", al.id));
                    }
                    if m.connected.len() + m.lost_while_running.len() >= 3 {
                        run.classes.insert("three-worker-notifications".into());
                    }
                }
            }
            // unknown allocation: nothing changes
            if unknown_msg {
                run.classes.insert("unknown-allocation-message".into());
                let same = snap.len() == snap_before.len()
                    && snap.iter().zip(snap_before.iter()).all(|(x, y)| {
                        x.id == y.id
                            && x.paused == y.paused
                            && x.allocations.len() == y.allocations.len()
                            && x.allocations.iter().zip(y.allocations.iter()).all(|(p, q)| {
                                p.id == q.id && format!("{:?}", p.status) == format!("{:?}", q.status)
                            })
                    });
                if !same {
                    alarm(&mut run, "C18", "a worker naming an unknown allocation changed the state", format!("step {step}"));
                }
            }
            // removal
            if let Some((q, active, all)) = removed_now {
                run.classes.insert("queue-removed".into());
                if !active.is_empty() {
                    run.classes.insert("queue-removed-with-active-allocations".into());
                }
                let removes: Vec<String> = batch.borrow().remove_calls[before_removes..].to_vec();
                let mut r_sorted = removes.clone();
                r_sorted.sort();
                let mut a_sorted = active.clone();
                a_sorted.sort();
                if r_sorted != a_sorted {
                    alarm(&mut run, "C18", "queue removal did not cancel exactly its active allocations once", format!("step {step}: queue {q}: active {a_sorted:?}, canceled {r_sorted:?}"));
                }
                if snap.iter().any(|x| x.id == q) {
                    alarm(&mut run, "C18", "removed queue can still be looked up", format!("step {step}: queue {q}"));
                }
                for id in &all {
                    if sim.queue_of_allocation(id).is_some() || sim.get_allocation(id).is_some() {
                        alarm(&mut run, "C18", "allocation of a removed queue can still be looked up", format!("step {step}: {id}"));
                    }
                    allocs.remove(id);
                }
                if removed_queue_events.get(&q) != Some(&1) {
                    alarm(&mut run, "C18", "queue removal not announced exactly once", format!("step {step}: queue {q}: {:?}", removed_queue_events.get(&q)));
                }
            } else if batch.borrow().remove_calls.len() != before_removes {
                alarm(&mut run, "C18", "allocation canceled in the batch system outside of a queue removal", format!("step {step}"));
            }

            // ---------------------------------------------------------------- C17: resume
            if ticked {
                if let Some(q) = expect_resume_submit {
                    // clear-cut state: demand for a 1-cpu task that fits, room in both limits,
                    // back-off elapsed, no other eligible queue
                    let qs = snap.iter().find(|x| x.id == q);
                    let qm = queues.get(&q);
                    if let (Some(qs), Some(qm)) = (qs, qm) {
                        let n_queued = qs
                            .allocations
                            .iter()
                            .filter(|a| matches!(a.status, AllocationState::Queued { .. }))
                            .count();
                        let active: u64 = qs
                            .allocations
                            .iter()
                            .filter(|a| a.is_active())
                            .map(|a| a.target_worker_count)
                            .sum();
                        let room = n_queued == 0
                            && qm.spec.max_worker_count.is_none_or(|m| active < m as u64);
                        let has_demand = demand.get(&0).is_some_and(|t| !t.is_empty())
                            && demand.iter().all(|(k, t)| *k == 0 || t.is_empty())
                            && fits(0, qm);
                        let others_idle = snap.iter().all(|x| {
                            x.id == q || x.paused_before(&paused_before)
                        });
                        let elapsed = qm.limiter.iter().all(|st| {
                            st.last_attempt
                                .is_none_or(|l| now_s - l >= DELAYS[DELAYS.len() - 1])
                        });
                        if room && has_demand && others_idle && elapsed && !qm.spec.min_utilization_half {
                            alarm(&mut run, "C17", "resumed queue does not submit although there is demand, room and the back-off has elapsed", format!("step {step}: queue {q} paused again = {}; failure counters in the model {:?}", qs.paused, qm.limiter));
                        }
                    }
                    // only the first tick after the resume is judged
                    expect_resume_submit = None;
                }
            }
        }
        // end: every allocation whose life-cycle is defined got its announcements right
        for (id, m) in &allocs {
            if m.queued_events != 1 {
                alarm(&mut run, "C18", "allocation not announced as queued exactly once", format!("{id}"));
            }
        }
    });
    verif_mock_time::set(None);
    run
}

trait PausedBefore {
    fn paused_before(&self, m: &BTreeMap<QueueId, bool>) -> bool;
}
impl PausedBefore for hyperqueue::server::autoalloc::verif::QueueSnapshot {
    fn paused_before(&self, m: &BTreeMap<QueueId, bool>) -> bool {
        m.get(&self.id).copied().unwrap_or(true)
    }
}

impl AllocModel {
    fn crashed_all_update(&mut self, wid: u32, crashed: bool) {
        self.crashed.insert(wid, crashed);
    }
    fn all_crashed(&self) -> bool {
        self.crashed.values().all(|c| *c)
    }
}

pub struct AutoEngine {
    pub prop: &'static str,
}

impl Engine for AutoEngine {
    type Case = AutoCase;
    fn hang_limit_secs(&self) -> u64 {
        // cases of this engine take milliseconds
        90
    }
    fn property(&self) -> &str {
        self.prop
    }
    fn strategy(&self, tier: Tier) -> BoxedStrategy<Self::Case> {
        case_strategy(match tier {
            Tier::Quick => 60,
            Tier::Thorough => 200,
        })
    }
    fn quick_cases(&self) -> usize {
        6000
    }
    fn thorough_cases(&self) -> usize {
        150_000
    }
    fn run(&self, case: &Self::Case) -> Outcome {
        crate::sim::install_panic_hook();
        crate::sim::PANICS.with(|p| p.borrow_mut().clear());
        let r = std::panic::catch_unwind(std::panic::AssertUnwindSafe(|| execute(case)));
        let mut out = Outcome::default();
        match r {
            Ok(run) => {
                out.trace_hash = hash_str(&run.trace.join("|"));
                out.classes = run.classes.iter().cloned().collect();
                out.nontrivial = if self.prop == "C17" {
                    run.classes.contains("failed-submission")
                        && (run.classes.contains("queue-paused")
                            || run.classes.contains("resume-of-paused-queue"))
                } else {
                    run.classes.contains("three-worker-notifications")
                        || run.classes.contains("queue-removed-with-active-allocations")
                };
                out.summary = serde_json::json!({
                    "queues": format!("{:?}", case.queues),
                    "trace_head": run.trace.iter().take(60).collect::<Vec<_>>(),
                    "alarms": run.alarms.iter().map(|a| format!("{}: {} -- {}", a.0, a.1, a.2)).collect::<Vec<_>>(),
                });
                if let Some(a) = run.alarms.iter().find(|a| a.0 == self.prop) {
                    out.violation = Some(Violation {
                        signature: a.1.clone(),
                        detail: a.2.clone(),
                    });
                }
            }
            Err(_) => {
                verif_mock_time::set(None);
                let p = crate::sim::PANICS.with(|p| p.borrow().last().cloned());
                let (loc, msg) = p.unwrap_or_default();
                if loc.contains("/verif/") {
                    out.aborted = Some(format!("HARNESS PANIC at {loc}: {msg}"));
                } else {
                    out.violation = Some(Violation {
                        signature: format!(
                            "autoalloc panics at {}",
                            loc.rsplit("/crates/").next().unwrap_or(&loc)
                        ),
                        detail: msg,
                    });
                }
            }
        }
        out
    }
    fn rule(&self) -> String {
        let common = "AUTOALLOC engine: 1-3 queues (backlog 1-4, workers per allocation 1-3, max worker count none/1-6, cli resources none/cpus/cpus+gpus, min-utilization 0/0.5) with a rate limiter of delays [0,10,40] s and failure limits 2-3, driven by generated histories of job submits (demand in a real tako core: 1-cpu, 64-cpu, gpu, 2-node tasks), cancel of all tasks, scheduling ticks (fake batch system answers every submission with success / failure / directory error), periodic updates with generated status answers (queued/running/finished/failed/error/missing/global error), worker connects and losses from known and unknown allocations (duplicates, loss before connect, extras), pause/resume/remove (forced or not) and mocked clock advances, through the real handle_message / perform_submits / do_periodic_update. Distinct = hash of the resolved history.";
        if self.prop == "C17" {
            format!("{common} Non-trivial = at least one failed submission and a paused or resumed queue")
        } else {
            format!("{common} Non-trivial = at least three worker notifications for one allocation, or a queue removal with an active allocation")
        }
    }
    fn assumptions(&self) -> Vec<String> {
        vec![
            "PBS/Slurm commands are replaced by a fake QueueHandler at the trait boundary; the autoalloc event loop (intervals, select!) is replaced by explicit tick / update actions".into(),
            "demand is judged with a harness model of 'fits' (sizes of the queue's known or cli resources; unknown resources of a partial query fit)".into(),
            "a worker loss while its allocation is still queued is not defined by the statement: such allocations are excluded from the life-cycle comparison".into(),
            "the must-submit-after-resume check is asserted only in a clear-cut state (single eligible queue, no queued allocation, room in both limits, only 1-cpu demand that fits, largest back-off delay elapsed, min-utilization 0)".into(),
        ]
    }
}
