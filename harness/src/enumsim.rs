//! Bounded exhaustive exploration of small SIM scenarios ("small scope"): every interleaving of
//! message deliveries, scheduler rounds, task ends and a bounded number of faults (worker loss,
//! cancel, task failure, retract check, late worker) up to a depth bound, with visited-state
//! pruning. The simulation is deterministic but cannot be cloned, so the search is a stateless
//! depth-first search: every path is re-executed from the scenario's start.
//!
//! A case is (scenario, path of indices into the list of concrete enabled actions); the list is
//! built in a fixed order from the state, so a path is a complete reproduction.

use std::cell::RefCell;
use std::collections::HashMap;
use std::rc::Rc;
use std::sync::atomic::{AtomicBool, AtomicU64, Ordering};
use std::sync::{Arc, Mutex};

use hyperqueue::transfer::messages::FromClientMessage;
use serde::{Deserialize, Serialize};
use tako::JobId;

use crate::common::{Outcome, hash_str};
use crate::sim::{self, Action, PANICS, Sim, SimCase, install_panic_hook, palette};

#[derive(Debug, Clone, Serialize, Deserialize)]
pub struct EnumCase {
    pub scenario: u8,
    pub path: Vec<u16>,
}

#[derive(Debug, Clone, Copy, Default, PartialEq, Eq, Hash)]
struct Budget {
    losses: u8,
    cancels: u8,
    fails: u8,
    retract_checks: u8,
    connects: u8,
    /// steps of 330 s of virtual time
    advances: u8,
}

pub const N_SCENARIOS: u8 = 16;

struct Scenario {
    name: &'static str,
    prefill: Option<(u32, u32)>,
    workers: &'static [usize],
    late_worker: usize,
    budget: Budget,
}

fn scenario(k: u8) -> Scenario {
    let b = |losses, cancels, fails, retract_checks, connects| Budget {
        losses,
        cancels,
        fails,
        retract_checks,
        connects,
        advances: 0,
    };
    match k % N_SCENARIOS {
        0 => Scenario {
            name: "two 2-cpu workers, prefill (0,2), array of four 1-cpu tasks; one loss, one cancel",
            prefill: Some((0, 2)),
            workers: &[1, 1],
            late_worker: 1,
            budget: b(1, 1, 0, 1, 0),
        },
        1 => Scenario {
            name: "one 1-cpu worker, a second arrives late, prefill (0,1), array of three 1-cpu tasks; one loss",
            prefill: Some((0, 1)),
            workers: &[3],
            late_worker: 3,
            budget: b(1, 0, 0, 1, 1),
        },
        2 => Scenario {
            name: "one 2-cpu worker, graph t0 -> t1, t0 -> t2, max-fails 0; one failure, one cancel",
            prefill: Some((1, 2)),
            workers: &[1],
            late_worker: 1,
            budget: b(0, 1, 1, 0, 0),
        },
        3 => Scenario {
            name: "one 1-cpu worker, two jobs of two 1-cpu tasks with priorities 0 and 5, prefill (0,1); one cancel, one loss, late worker",
            prefill: Some((0, 1)),
            workers: &[3],
            late_worker: 3,
            budget: b(1, 1, 0, 1, 1),
        },
        4 => Scenario {
            name: "two 2-cpu workers of one group, a 2-node task and two 1-cpu tasks; one loss, one cancel",
            prefill: Some((0, 1)),
            workers: &[1, 1],
            late_worker: 1,
            budget: b(1, 1, 0, 0, 0),
        },
        5 => Scenario {
            name: "two 1-cpu workers, array of three 1-cpu tasks with crash limit 1, prefill (0,1); two losses, late worker",
            prefill: Some((0, 1)),
            workers: &[3, 3],
            late_worker: 3,
            budget: b(2, 0, 0, 0, 1),
        },
        6 => Scenario {
            name: "one 2-cpu worker, open job: array of two, then (late) nothing more, max-fails 1; one failure, one cancel, one loss",
            prefill: Some((0, 2)),
            workers: &[1],
            late_worker: 1,
            budget: b(1, 1, 1, 0, 0),
        },
        7 => Scenario {
            name: "production prefill thresholds, one 4-cpu worker and one 1-cpu worker, array of three 2-cpu tasks and two 1-cpu tasks; one loss, one cancel",
            prefill: None,
            workers: &[0, 3],
            late_worker: 3,
            budget: b(1, 1, 0, 1, 0),
        },
        8 => Scenario {
            name: "worker with 2x4 cpus + 2 gpus and a 4-cpu worker, three tasks with two variants (4 cpus | 1 cpu + 1 gpu), prefill (0,1); one loss, retract check",
            prefill: Some((0, 1)),
            workers: &[2, 0],
            late_worker: 0,
            budget: b(1, 0, 0, 1, 0),
        },
        9 => Scenario {
            name: "one 4-cpu worker, an `all` task, two 2-cpu tasks and a half-cpu task, prefill (0,1); one cancel, one failure",
            prefill: Some((0, 1)),
            workers: &[0],
            late_worker: 0,
            budget: b(0, 1, 1, 0, 0),
        },
        10 => Scenario {
            name: "three 2-cpu workers of one group, a 3-node task, a 2-node task and a 1-cpu task; two losses",
            prefill: Some((0, 1)),
            workers: &[1, 1, 1],
            late_worker: 1,
            budget: b(2, 0, 0, 0, 0),
        },
        11 => Scenario {
            name: "2-cpu worker with a 1000 s time limit, prefill (0,2), four tasks with min-time 300 s and one plain 1-cpu task; three time steps of 330 s, two retract checks, one loss",
            prefill: Some((0, 2)),
            workers: &[6],
            late_worker: 6,
            budget: Budget {
                advances: 3,
                ..b(1, 0, 0, 2, 0)
            },
        },
        12 => Scenario {
            name: "one 2-cpu worker, graph with a repeated dependency and a diamond (t0 -> t1, t0 -> t2, {t1,t2,t1} -> t3), never-restart tasks; one loss, one failure, late worker",
            prefill: Some((0, 1)),
            workers: &[1],
            late_worker: 1,
            budget: b(1, 0, 1, 0, 1),
        },
        13 => Scenario {
            name: "two 1-cpu workers, job with max-fails 0 of three tasks and a second job of two tasks, prefill (0,1); two failures, one cancel",
            prefill: Some((0, 1)),
            workers: &[3, 3],
            late_worker: 3,
            budget: b(0, 1, 2, 0, 0),
        },
        14 => Scenario {
            name: "4-cpu + mem worker and a 4-cpu worker, two cpu+mem tasks, two scatter tasks, one 1.5-cpu task, production prefill; one loss, one cancel, retract check",
            prefill: None,
            workers: &[4, 0],
            late_worker: 0,
            budget: b(1, 1, 0, 1, 0),
        },
        _ => Scenario {
            name: "two 2-cpu workers in different groups, a 2-node task (cannot run), two 1-cpu tasks of lower priority, a late worker of group a; one loss, one cancel",
            prefill: Some((0, 1)),
            workers: &[1, 6],
            late_worker: 1,
            budget: b(1, 1, 0, 0, 1),
        },
    }
}

async fn submit(sim: &mut Sim, request: hyperqueue::transfer::messages::SubmitRequest) {
    let c = sim.world.idle_client();
    sim.mon.on_submit_sent(c, &request, false);
    sim.world
        .send_request(c, FromClientMessage::Submit(request, None), "submit", false);
    sim.world.settle().await;
    sim.service_io().await;
}

async fn setup(k: u8) -> (Sim, Budget) {
    let sc = scenario(k);
    let case = SimCase {
        profile: "chaos".to_string(),
        prefill: sc.prefill,
        eager: true,
        choices: Vec::new(),
        genv: sim::GEN_CURRENT,
    };
    let mut sim = Sim::new(&case);
    sim.world.settle().await;
    sim.world.set_step(1);
    for p in sc.workers {
        let _ = sim.apply(Action::Connect { palette: *p }).await;
    }
    let d = |prio: i32, crash: usize| palette::task_description(prio, palette::crash_limit(crash), None);
    match k % N_SCENARIOS {
        0 => {
            let r = palette::array_submit(None, palette::int_array(&[0, 1, 2, 3]), None, palette::request(0), d(0, 0), None, "a");
            submit(&mut sim, r).await;
        }
        1 => {
            let r = palette::array_submit(None, palette::int_array(&[0, 1, 2]), None, palette::request(0), d(0, 0), None, "a");
            submit(&mut sim, r).await;
        }
        2 => {
            let r = palette::graph_submit(
                None,
                vec![palette::request(0)],
                vec![(0, 0, d(0, 0), vec![]), (1, 0, d(0, 0), vec![0]), (2, 0, d(1, 0), vec![0])],
                Some(0),
                "g",
            );
            submit(&mut sim, r).await;
        }
        3 => {
            let r = palette::array_submit(None, palette::int_array(&[0, 1]), None, palette::request(0), d(0, 0), None, "lo");
            submit(&mut sim, r).await;
            let r = palette::array_submit(None, palette::int_array(&[0, 1]), None, palette::request(0), d(5, 0), None, "hi");
            submit(&mut sim, r).await;
        }
        4 => {
            let r = palette::array_submit(None, palette::int_array(&[0]), None, palette::request(8), d(1, 0), None, "mn");
            submit(&mut sim, r).await;
            let r = palette::array_submit(None, palette::int_array(&[0, 1]), None, palette::request(0), d(0, 0), None, "sn");
            submit(&mut sim, r).await;
        }
        5 => {
            let r = palette::array_submit(None, palette::int_array(&[0, 1, 2]), None, palette::request(0), d(0, 2), None, "a");
            submit(&mut sim, r).await;
        }
        6 => {
            let c = sim.world.idle_client();
            sim.world.send_request(
                c,
                FromClientMessage::OpenJob(hyperqueue::transfer::messages::JobDescription {
                    name: "open".into(),
                    max_fails: Some(1),
                }),
                "open",
                false,
            );
            sim.world.settle().await;
            sim.service_io().await;
            let r = palette::array_submit(Some(JobId::new(1)), palette::int_array(&[0, 1, 2]), None, palette::request(0), d(0, 0), Some(1), "a");
            submit(&mut sim, r).await;
        }
        7 => {
            let r = palette::array_submit(None, palette::int_array(&[0, 1, 2]), None, palette::request(1), d(0, 0), None, "two");
            submit(&mut sim, r).await;
            let r = palette::array_submit(None, palette::int_array(&[0, 1]), None, palette::request(0), d(1, 0), None, "one");
            submit(&mut sim, r).await;
        }
        8 => {
            let r = palette::array_submit(None, palette::int_array(&[0, 1, 2]), None, palette::request(7), d(0, 0), None, "var");
            submit(&mut sim, r).await;
        }
        9 => {
            let r = palette::array_submit(None, palette::int_array(&[0]), None, palette::request(5), d(1, 0), None, "all");
            submit(&mut sim, r).await;
            let r = palette::array_submit(None, palette::int_array(&[0, 1]), None, palette::request(1), d(0, 0), None, "two");
            submit(&mut sim, r).await;
            let r = palette::array_submit(None, palette::int_array(&[0]), None, palette::request(3), d(5, 0), None, "half");
            submit(&mut sim, r).await;
        }
        10 => {
            let r = palette::array_submit(None, palette::int_array(&[0]), None, palette::request(9), d(1, 0), None, "mn3");
            submit(&mut sim, r).await;
            let r = palette::array_submit(None, palette::int_array(&[0]), None, palette::request(8), d(0, 0), None, "mn2");
            submit(&mut sim, r).await;
            let r = palette::array_submit(None, palette::int_array(&[0]), None, palette::request(0), d(0, 0), None, "sn");
            submit(&mut sim, r).await;
        }
        11 => {
            let r = palette::array_submit(None, palette::int_array(&[0, 1, 2, 3]), None, palette::request(10), d(0, 0), None, "mintime");
            submit(&mut sim, r).await;
            let r = palette::array_submit(None, palette::int_array(&[0]), None, palette::request(0), d(0, 0), None, "plain");
            submit(&mut sim, r).await;
        }
        12 => {
            let r = palette::graph_submit(
                None,
                vec![palette::request(0)],
                vec![
                    (0, 0, d(0, 1), vec![]),
                    (1, 0, d(0, 1), vec![0]),
                    (2, 0, d(1, 1), vec![0]),
                    (3, 0, d(0, 1), vec![1, 2, 1]),
                ],
                None,
                "g",
            );
            submit(&mut sim, r).await;
        }
        13 => {
            let r = palette::array_submit(None, palette::int_array(&[0, 1, 2]), None, palette::request(0), d(0, 0), Some(0), "mf");
            submit(&mut sim, r).await;
            let r = palette::array_submit(None, palette::int_array(&[0, 1]), None, palette::request(0), d(0, 0), None, "other");
            submit(&mut sim, r).await;
        }
        14 => {
            let r = palette::array_submit(None, palette::int_array(&[0, 1]), None, palette::request(6), d(0, 0), None, "mem");
            submit(&mut sim, r).await;
            let r = palette::array_submit(None, palette::int_array(&[0, 1]), None, palette::request(11), d(0, 0), None, "scatter");
            submit(&mut sim, r).await;
            let r = palette::array_submit(None, palette::int_array(&[0]), None, palette::request(13), d(1, 0), None, "frac");
            submit(&mut sim, r).await;
        }
        _ => {
            let r = palette::array_submit(None, palette::int_array(&[0]), None, palette::request(8), d(5, 0), None, "mn2");
            submit(&mut sim, r).await;
            let r = palette::array_submit(None, palette::int_array(&[0, 1]), None, palette::request(0), d(0, 0), None, "sn");
            submit(&mut sim, r).await;
        }
    }
    if k % N_SCENARIOS == 11 {
        // warm-up: the exploration starts with the tasks placed (two running, two in the
        // backlog), so that the time steps and the periodic check are within a small depth
        for _ in 0..30 {
            let a = {
                let w = &sim.world;
                if let Some(ws) = w.workers.values().find(|ws| !ws.q.is_empty()) {
                    Some(Action::ToWorker { worker: ws.id })
                } else if let Some(ws) = w.workers.values().find(|ws| !ws.r.is_empty()) {
                    Some(Action::ToServer { worker: ws.id })
                } else if w.server.scheduling_requested() {
                    Some(Action::Sched)
                } else {
                    None
                }
            };
            let Some(a) = a else { break };
            let step = sim.world.step_no() + 1;
            sim.world.set_step(step);
            let d = sim.apply(a).await;
            sim.obs.borrow_mut().trace.push(format!("{step}: [warm-up] {d}"));
        }
    }
    (sim, sc.budget)
}

fn concrete_actions(sim: &Sim, b: &Budget, late_worker: usize) -> Vec<Action> {
    let mut out = Vec::new();
    let world = &sim.world;
    // reduction: the delivery of a membership / request-class notice (NewWorker, LostWorker,
    // NewRq) to a worker only fills lookup tables of that worker and is ordered before every
    // message of the same connection that uses it; it is taken at once instead of being
    // interleaved with everything else
    for ws in world.workers.values() {
        if let Some(m) = ws.q.front() {
            if let Ok(msg) =
                tako::comm::deserialize::<tako::internal::messages::worker::ToWorkerMessage>(m)
            {
                if matches!(
                    sim::obs::summarize_to_worker(&msg),
                    sim::obs::ToW::NewWorker(_) | sim::obs::ToW::NewRq(_)
                ) {
                    return vec![Action::ToWorker { worker: ws.id }];
                }
            }
        }
    }
    for ws in world.workers.values() {
        if !ws.q.is_empty() {
            out.push(Action::ToWorker { worker: ws.id });
        }
    }
    for ws in world.workers.values() {
        if !ws.r.is_empty() {
            out.push(Action::ToServer { worker: ws.id });
        } else if !ws.alive {
            out.push(Action::CloseConn { worker: ws.id });
        }
    }
    if world.server.scheduling_requested() {
        out.push(Action::Sched);
    }
    {
        let l = world.launch.borrow();
        for (k, e) in l.live.iter() {
            if e.resolver.is_some() && !l.dead_workers.contains(&e.worker) {
                out.push(Action::EndTask {
                    exec: *k,
                    finish: true,
                });
                if b.fails > 0 {
                    out.push(Action::EndTask {
                        exec: *k,
                        finish: false,
                    });
                }
            }
        }
    }
    let alive: Vec<_> = world
        .workers
        .values()
        .filter(|w| w.alive)
        .map(|w| w.id)
        .collect();
    if b.losses > 0 {
        for w in &alive {
            out.push(Action::Lost {
                worker: *w,
                heartbeat: false,
            });
        }
    }
    if b.retract_checks > 0 {
        for w in &alive {
            out.push(Action::RetractCheck { worker: *w });
        }
    }
    if b.cancels > 0 {
        let st = world.state_ref.get();
        let mut jobs: Vec<JobId> = st
            .jobs()
            .filter(|j| !j.is_terminated())
            .map(|j| j.job_id)
            .collect();
        jobs.sort();
        for j in jobs {
            out.push(Action::Cancel { job: j, sel: 0 });
        }
    }
    if b.connects > 0 {
        out.push(Action::Connect {
            palette: late_worker,
        });
    }
    if b.advances > 0 {
        out.push(Action::Advance { secs: 330 });
    }
    out
}

fn spend(b: &mut Budget, a: &Action) {
    match a {
        Action::Lost { .. } => b.losses -= 1,
        Action::Cancel { .. } => b.cancels -= 1,
        Action::EndTask { finish: false, .. } => b.fails -= 1,
        Action::RetractCheck { .. } => b.retract_checks -= 1,
        Action::Connect { .. } => b.connects -= 1,
        Action::Advance { .. } => b.advances -= 1,
        _ => {}
    }
}

fn state_hash(sim: &Sim, b: &Budget) -> u64 {
    use std::fmt::Write;
    let mut s = String::with_capacity(4096);
    let world = &sim.world;
    let _ = write!(s, "{:?}|t{}|{:?}|", b, world.now_ms(), world.snapshot());
    for ws in world.workers.values() {
        let _ = write!(s, "w{}:{}:{:?}|", ws.id, ws.alive, ws.sim.snapshot());
        for m in &ws.q {
            let _ = write!(s, "q{:x};", hash_bytes(m));
        }
        for m in &ws.r {
            let _ = write!(s, "r{:x};", hash_bytes(m));
        }
    }
    {
        let l = world.launch.borrow();
        for (k, e) in l.live.iter() {
            let _ = write!(s, "x{}:{}:{}:{}:{};", k, e.task, e.worker, e.instance, e.resolver.is_some());
        }
        let _ = write!(s, "dead{:?}", l.dead_workers);
    }
    {
        let st = world.state_ref.get();
        let mut jobs: Vec<_> = st.jobs().map(|j| (j.job_id, j.is_open(), format!("{:?}", j.counters))).collect();
        jobs.sort();
        let _ = write!(s, "{jobs:?}");
    }
    hash_str(&s)
}

fn hash_bytes(b: &[u8]) -> u64 {
    let mut h: u64 = 0xcbf29ce484222325;
    for x in b {
        h ^= *x as u64;
        h = h.wrapping_mul(0x100000001b3);
    }
    h
}

pub struct PathRun {
    pub outcome: Outcome,
    /// number of concrete actions enabled after each executed prefix (index i = after i steps)
    pub fanout: Vec<usize>,
    pub hashes: Vec<u64>,
    pub trace: Vec<String>,
}

/// Execute `path` in `scenario`; afterwards extend it greedily (always action 0) up to `max_depth`
/// as long as `extend` says so for the state reached (given its hash and the remaining depth).
pub fn run_path(
    prop: &'static str,
    case: &EnumCase,
    max_depth: usize,
    mut extend: impl FnMut(u64, usize) -> bool,
) -> (PathRun, Vec<u16>) {
    install_panic_hook();
    PANICS.with(|p| p.borrow_mut().clear());
    let case = case.clone();
    let out: Rc<RefCell<Option<(PathRun, Vec<u16>)>>> = Rc::new(RefCell::new(None));
    let out2 = out.clone();
    let obs_keep: Rc<RefCell<Option<Rc<RefCell<sim::obs::Obs>>>>> = Rc::new(RefCell::new(None));
    let obs_keep2 = obs_keep.clone();
    let steps = Rc::new(RefCell::new(0u32));
    let steps2 = steps.clone();
    let partial: Rc<RefCell<(Vec<u16>, Vec<usize>, Vec<u64>)>> = Rc::new(RefCell::new((Vec::new(), Vec::new(), Vec::new())));
    let partial2 = partial.clone();
    let result = std::panic::catch_unwind(std::panic::AssertUnwindSafe(|| {
        let rt = tokio::runtime::Builder::new_current_thread()
            .enable_time()
            .start_paused(true)
            .build()
            .unwrap();
        let local = tokio::task::LocalSet::new();
        rt.block_on(local.run_until(async {
            let t_setup = std::time::Instant::now();
            let (mut sim, mut budget) = setup(case.scenario).await;
            let setup_s = t_setup.elapsed().as_secs_f64();
            let t_steps = std::time::Instant::now();
            *obs_keep2.borrow_mut() = Some(sim.obs.clone());
            let late = scenario(case.scenario).late_worker;
            let mut taken: Vec<u16> = Vec::new();
            let mut fanout = Vec::new();
            let mut hashes = Vec::new();
            let mut level = 0usize;
            let mut pruned = false;
            loop {
                if PANICS.with(|p| !p.borrow().is_empty()) {
                    break;
                }
                let acts = concrete_actions(&sim, &budget, late);
                let h = state_hash(&sim, &budget);
                fanout.push(acts.len());
                hashes.push(h);
                {
                    let mut p = partial2.borrow_mut();
                    p.0 = taken.clone();
                    p.1 = fanout.clone();
                    p.2 = hashes.clone();
                }
                if acts.is_empty() || level >= max_depth {
                    break;
                }
                let idx = if level < case.path.len() {
                    case.path[level] as usize
                } else {
                    if !extend(h, max_depth - level) {
                        pruned = true;
                        break;
                    }
                    0
                };
                if idx >= acts.len() {
                    break;
                }
                let a = acts[idx].clone();
                spend(&mut budget, &a);
                let step = sim.world.step_no() + 1;
                sim.world.set_step(step);
                *steps2.borrow_mut() = step;
                sim.obs.borrow_mut().trace.push(format!("{a:?} (did not complete)"));
                let d = sim.apply(a).await;
                *sim.obs.borrow_mut().trace.last_mut().unwrap() = format!("{step}: {d}");
                taken.push(idx as u16);
                level += 1;
            }
            // fault-free suffix at the end of a path (not where the search was cut because the
            // state had been expanded before): at-rest and completion checks of the monitors
            let mut quiescent = false;
            if prop != "C09" && !pruned && PANICS.with(|p| p.borrow().is_empty()) {
                let q1 = sim.drain(false).await;
                quiescent = q1;
                if PANICS.with(|p| p.borrow().is_empty()) {
                    sim.mon.finish(&sim.world, &mut sim.obs.borrow_mut(), q1, false);
                    if q1 {
                        let q2 = sim.drain(true).await;
                        quiescent = q2;
                        if PANICS.with(|p| p.borrow().is_empty()) {
                            sim.mon.finish(&sim.world, &mut sim.obs.borrow_mut(), q2, true);
                        }
                    }
                }
            }
            if std::env::var("VERIF_TIMING").is_ok() {
                eprintln!("enum path: setup {:.4}s, {} steps {:.4}s", setup_s, level, t_steps.elapsed().as_secs_f64());
            }
            let run = sim::SimRun {
                obs: sim.obs.clone(),
                quiescent,
                panics: PANICS.with(|p| p.borrow().clone()),
                steps: *steps2.borrow(),
            };
            let outcome = sim::outcome_for(prop, &run);
            let trace = sim.obs.borrow().trace.clone();
            *out2.borrow_mut() = Some((
                PathRun {
                    outcome,
                    fanout,
                    hashes,
                    trace,
                },
                taken,
            ));
        }));
    }));
    let _ = result;
    if let Some(r) = out.borrow_mut().take() {
        return r;
    }
    // a panic escaped the simulation (panic in the code under test outside a catch point)
    let panics = PANICS.with(|p| p.borrow().clone());
    let obs = obs_keep
        .borrow_mut()
        .take()
        .unwrap_or_else(|| Rc::new(RefCell::new(sim::obs::Obs::default())));
    let run = sim::SimRun {
        obs: obs.clone(),
        quiescent: false,
        panics,
        steps: *steps.borrow(),
    };
    let outcome = sim::outcome_for(prop, &run);
    let trace = obs.borrow().trace.clone();
    let p = partial.borrow();
    (
        PathRun {
            outcome,
            fanout: p.1.clone(),
            hashes: p.2.clone(),
            trace,
        },
        p.0.clone(),
    )
}

#[derive(Default, Debug, Clone, Serialize)]
pub struct EnumStats {
    pub scenario: u8,
    pub name: String,
    pub depth: usize,
    pub executions: u64,
    pub transitions: u64,
    pub distinct_states: u64,
    pub pruned_revisits: u64,
    pub exhaustive_to_depth: bool,
    pub max_fanout: usize,
    pub sample_path: Vec<String>,
    /// classes observed on the explored paths (same labels as in the class histogram)
    pub classes: std::collections::BTreeSet<String>,
}

pub struct EnumResult {
    pub stats: Vec<EnumStats>,
    pub violation: Option<(crate::common::Violation, EnumCase)>,
}

/// Depth-first search over one scenario (optionally below a fixed first action).
fn explore_one(
    prop: &'static str,
    scenario_id: u8,
    depth: usize,
    exec_budget: u64,
    stop: &AtomicBool,
    known: &[crate::common::KnownFinding],
    known_hits: &Mutex<HashMap<String, u64>>,
) -> (EnumStats, Option<(crate::common::Violation, EnumCase)>) {
    let mut st = EnumStats {
        scenario: scenario_id,
        name: scenario(scenario_id).name.to_string(),
        depth,
        exhaustive_to_depth: true,
        ..Default::default()
    };
    // visited: state hash -> largest remaining depth it was expanded with
    let visited: RefCell<HashMap<u64, usize>> = RefCell::new(HashMap::new());
    // explicit DFS stack: (index taken, fanout) per level
    let mut stack: Vec<(u16, usize)> = Vec::new();
    let mut first = true;
    loop {
        if stop.load(Ordering::Relaxed) {
            st.exhaustive_to_depth = false;
            break;
        }
        if st.executions >= exec_budget {
            st.exhaustive_to_depth = false;
            break;
        }
        if !first && stack.is_empty() {
            break;
        }
        first = false;
        let prefix: Vec<u16> = stack.iter().map(|f| f.0).collect();
        let plen = prefix.len();
        let case = EnumCase {
            scenario: scenario_id,
            path: prefix,
        };
        let mut pruned = 0u64;
        let (run, taken) = run_path(prop, &case, depth, |h, remaining| {
            let mut v = visited.borrow_mut();
            match v.get(&h) {
                Some(r) if *r >= remaining => {
                    pruned += 1;
                    false
                }
                _ => {
                    v.insert(h, remaining);
                    true
                }
            }
        });
        st.executions += 1;
        st.pruned_revisits += pruned;
        for c in &run.outcome.classes {
            if !st.classes.contains(c) {
                st.classes.insert(c.clone());
            }
        }
        st.transitions += taken.len().saturating_sub(plen.saturating_sub(1)) as u64;
        st.max_fanout = st.max_fanout.max(run.fanout.iter().copied().max().unwrap_or(0));
        if st.sample_path.is_empty() && taken.len() >= depth.min(8) {
            st.sample_path = run.trace.iter().rev().take(taken.len()).rev().cloned().collect();
        }
        if let Some(v) = run.outcome.violation.clone() {
            if let Some(k) = known.iter().find(|k| v.signature.contains(&k.signature)) {
                *known_hits.lock().unwrap().entry(k.signature.clone()).or_default() += 1;
            } else {
                // shortest reproduction: the executed path itself (DFS order; depth-bounded)
                return (
                    st,
                    Some((
                        v,
                        EnumCase {
                            scenario: scenario_id,
                            path: taken,
                        },
                    )),
                );
            }
        }
        // rebuild the stack from what was executed: the levels beyond the prefix took index 0
        for lvl in plen..taken.len() {
            stack.push((0, run.fanout.get(lvl).copied().unwrap_or(1)));
        }
        // the prefix's own fan-out values are already on the stack; fix level fan-outs if this was
        // the first execution through them
        // backtrack to the next unexplored sibling
        loop {
            match stack.last_mut() {
                None => break,
                Some((idx, n)) => {
                    if (*idx as usize) + 1 < *n {
                        *idx += 1;
                        break;
                    } else {
                        stack.pop();
                    }
                }
            }
        }
        if stack.is_empty() {
            break;
        }
    }
    st.distinct_states = visited.borrow().len() as u64;
    (st, None)
}

/// Explore all scenarios in parallel with iterative deepening until the execution budget is used.
pub fn explore(
    prop: &'static str,
    total_exec_budget: u64,
    max_depth: usize,
    threads: usize,
    known: Vec<crate::common::KnownFinding>,
) -> (EnumResult, HashMap<String, u64>) {
    let stop = Arc::new(AtomicBool::new(false));
    let found: Arc<Mutex<Option<(crate::common::Violation, EnumCase)>>> = Arc::new(Mutex::new(None));
    let stats: Arc<Mutex<Vec<EnumStats>>> = Arc::new(Mutex::new(Vec::new()));
    let known_hits: Arc<Mutex<HashMap<String, u64>>> = Arc::new(Mutex::new(HashMap::new()));
    let next = Arc::new(AtomicU64::new(0));
    let per_scenario = total_exec_budget / N_SCENARIOS as u64;
    let known = Arc::new(known);
    let mut handles = Vec::new();
    for t in 0..threads.min(N_SCENARIOS as usize) {
        let stop = stop.clone();
        let found = found.clone();
        let stats = stats.clone();
        let next = next.clone();
        let known = known.clone();
        let known_hits = known_hits.clone();
        let h = std::thread::Builder::new()
            .stack_size(64 << 20)
            .name(format!("enum{t}"))
            .spawn(move || {
                loop {
                    let k = next.fetch_add(1, Ordering::SeqCst);
                    if k >= N_SCENARIOS as u64 || stop.load(Ordering::Relaxed) {
                        break;
                    }
                    let k = k as u8;
                    // iterative deepening: the deepest bound that completes within the budget is
                    // reported as exhaustive
                    let mut used = 0u64;
                    let mut d = 4usize;
                    let mut best: Option<EnumStats> = None;
                    while d <= max_depth && used < per_scenario {
                        let (st, v) = explore_one(
                            prop,
                            k,
                            d,
                            per_scenario - used,
                            &stop,
                            &known,
                            &known_hits,
                        );
                        used += st.executions;
                        if let Some(v) = v {
                            let mut f = found.lock().unwrap();
                            if f.is_none() {
                                *f = Some(v);
                            }
                            stop.store(true, Ordering::Relaxed);
                            best = Some(st);
                            break;
                        }
                        let complete = st.exhaustive_to_depth;
                        if complete || best.is_none() {
                            let mut s2 = st.clone();
                            s2.executions = used;
                            best = Some(s2);
                        } else if let Some(b) = best.as_mut() {
                            // the deeper, incomplete round still counts as work done
                            b.executions = used;
                            b.transitions += st.transitions;
                        }
                        if !complete {
                            break;
                        }
                        d += 2;
                    }
                    if let Some(b) = best {
                        stats.lock().unwrap().push(b);
                    }
                }
            })
            .unwrap();
        handles.push(h);
    }
    for h in handles {
        let _ = h.join();
    }
    let mut st = stats.lock().unwrap().clone();
    st.sort_by_key(|s| s.scenario);
    let violation = found.lock().unwrap().take();
    let kh = known_hits.lock().unwrap().clone();
    (
        EnumResult {
            stats: st,
            violation,
        },
        kh,
    )
}
