//! Shared runner: seeds, threads, proptest drivers, shrinking, replay files, evidence,
//! known findings.

use proptest::strategy::{BoxedStrategy, Strategy};
use proptest::test_runner::{
    Config, RngAlgorithm, TestCaseError, TestError, TestRng, TestRunner,
};
use serde::de::DeserializeOwned;
use serde::{Deserialize, Serialize};
use std::cell::Cell;
use std::collections::{BTreeMap, HashSet};
use std::fmt::Debug;
use std::path::{Path, PathBuf};
use std::sync::atomic::{AtomicBool, AtomicU64, Ordering};
use std::sync::{Arc, Mutex};
use std::time::Instant;

pub const VERIF_ROOT: &str = "/verif";

#[derive(Debug, Clone, Copy, PartialEq, Eq)]
pub enum Tier {
    Quick,
    Thorough,
}

impl Tier {
    pub fn name(&self) -> &'static str {
        match self {
            Tier::Quick => "quick",
            Tier::Thorough => "thorough",
        }
    }
    /// Multiplier of the quick budget
    pub fn scale(&self) -> usize {
        match self {
            Tier::Quick => 1,
            Tier::Thorough => 25,
        }
    }
}

#[derive(Debug, Clone)]
pub struct Violation {
    /// Stable short signature (used to match known findings)
    pub signature: String,
    pub detail: String,
}

#[derive(Debug, Clone, Default)]
pub struct Outcome {
    pub violation: Option<Violation>,
    /// The case could not be completed for a reason that belongs to another property
    pub aborted: Option<String>,
    pub nontrivial: bool,
    pub trace_hash: u64,
    pub classes: Vec<String>,
    pub summary: serde_json::Value,
}

pub trait Engine: Sync + Send {
    type Case: Serialize + DeserializeOwned + Debug + Clone + 'static;
    fn property(&self) -> &str;
    fn level(&self) -> &'static str {
        "exploration"
    }
    fn strategy(&self, tier: Tier) -> BoxedStrategy<Self::Case>;
    /// Watchdog: seconds after which a single case counts as hung
    fn hang_limit_secs(&self) -> u64 {
        600
    }
    /// Number of cases for the quick tier
    fn quick_cases(&self) -> usize;
    fn thorough_cases(&self) -> usize {
        self.quick_cases() * 25
    }
    fn run(&self, case: &Self::Case) -> Outcome;
    fn rule(&self) -> String;
    fn assumptions(&self) -> Vec<String>;
    /// Fixed regression cases executed before the random search (name, case)
    fn regress_dir(&self) -> PathBuf {
        Path::new(VERIF_ROOT)
            .join("replays")
            .join(self.property())
            .join("regress")
    }
}

#[derive(Serialize, Deserialize, Debug, Clone)]
pub struct KnownFinding {
    pub property: String,
    /// "open" (suppresses the matching signature, prints KNOWN-FINDING) or "fixed"
    pub status: String,
    pub signature: String,
    pub description: String,
    #[serde(default)]
    pub commit: Option<String>,
}

pub fn load_known_findings() -> Vec<KnownFinding> {
    let path = Path::new(VERIF_ROOT).join("known_findings.json");
    match std::fs::read_to_string(&path) {
        Ok(s) => serde_json::from_str(&s).expect("known_findings.json is not valid"),
        Err(_) => Vec::new(),
    }
}

#[derive(Serialize, Deserialize, Debug)]
pub struct ReplayFile<C> {
    pub property: String,
    pub seed: u64,
    pub signature: String,
    pub detail: String,
    pub case: C,
}

#[derive(Default)]
struct Stats {
    evaluations: u64,
    nontrivial_hashes: HashSet<u64>,
    nontrivial_total: u64,
    aborted: u64,
    abort_reasons: BTreeMap<String, u64>,
    classes: BTreeMap<String, u64>,
    samples: Vec<serde_json::Value>,
    known_hits: BTreeMap<String, u64>,
}

pub struct RunResult {
    pub exit_code: i32,
}

thread_local! {
    static IN_SHRINK: Cell<bool> = const { Cell::new(false) };
}

fn seed_bytes(seed: u64, prop: &str, thread: usize) -> [u8; 32] {
    // splitmix-style expansion; pure function of (seed, property, thread)
    let mut x = seed ^ 0x9E37_79B9_7F4A_7C15;
    for b in prop.bytes() {
        x = x.wrapping_mul(0x100_0000_01B3) ^ b as u64;
    }
    x ^= (thread as u64).wrapping_mul(0xBF58_476D_1CE4_E5B9);
    let mut out = [0u8; 32];
    for chunk in out.chunks_mut(8) {
        x = x.wrapping_add(0x9E37_79B9_7F4A_7C15);
        let mut z = x;
        z = (z ^ (z >> 30)).wrapping_mul(0xBF58_476D_1CE4_E5B9);
        z = (z ^ (z >> 27)).wrapping_mul(0x94D0_49BB_1331_11EB);
        z ^= z >> 31;
        chunk.copy_from_slice(&z.to_le_bytes());
    }
    out
}

pub fn n_threads() -> usize {
    std::env::var("VERIF_THREADS")
        .ok()
        .and_then(|v| v.parse().ok())
        .unwrap_or_else(|| {
            std::thread::available_parallelism()
                .map(|n| n.get())
                .unwrap_or(8)
                .min(16)
        })
}

pub fn hash_str(s: &str) -> u64 {
    let mut h: u64 = 0xcbf29ce484222325;
    for b in s.bytes() {
        h ^= b as u64;
        h = h.wrapping_mul(0x100000001b3);
    }
    h
}

fn write_replay<C: Serialize>(
    prop: &str,
    seed: u64,
    v: &Violation,
    case: &C,
) -> std::io::Result<PathBuf> {
    let dir = Path::new(VERIF_ROOT).join("replays").join(prop).join("found");
    std::fs::create_dir_all(&dir)?;
    let body = serde_json::to_string_pretty(&ReplayFile {
        property: prop.to_string(),
        seed,
        signature: v.signature.clone(),
        detail: v.detail.clone(),
        case,
    })
    .unwrap();
    let name = format!("{:016x}.json", hash_str(&body));
    let path = dir.join(name);
    std::fs::write(&path, body)?;
    Ok(path)
}

/// Cases abandoned by an engine because the code under test did not come back
pub static HUNG_CASES: AtomicU64 = AtomicU64::new(0);
static HUNG_NOTE: Mutex<Option<String>> = Mutex::new(None);

pub fn note_hung_case<C: Serialize>(prop: &str, case: &C) {
    let n = HUNG_CASES.fetch_add(1, Ordering::Relaxed);
    if n == 0 {
        let dir = Path::new(VERIF_ROOT).join("replays").join(prop).join("hang");
        let _ = std::fs::create_dir_all(&dir);
        let body = format!(
            "{{\"property\":\"{prop}\",\"seed\":0,\"signature\":\"case did not finish\",\"detail\":\"abandoned by the engine\",\"case\":{}}}",
            serde_json::to_string(case).unwrap_or_default()
        );
        let path = dir.join(format!("{:016x}.json", hash_str(&body)));
        let _ = std::fs::write(&path, body);
        *HUNG_NOTE.lock().unwrap() = Some(format!(
            "INCONCLUSIVE: property={prop} the code under test did not come back on a generated case (hang); case saved to {}",
            path.display()
        ));
    }
}

fn reap(handles: &mut Vec<std::thread::JoinHandle<()>>, panicked: &mut bool) {
    let mut i = 0;
    while i < handles.len() {
        if handles[i].is_finished() {
            let h = handles.swap_remove(i);
            if h.join().is_err() {
                *panicked = true;
            }
        } else {
            i += 1;
        }
    }
}

/// Coverage of a systematic pre-phase (bounded exhaustive enumeration), merged into the evidence.
pub static EXTRA_COVERAGE: Mutex<Option<serde_json::Value>> = Mutex::new(None);
/// Violation found by a systematic pre-phase: reported by `run_engine` instead of searching.
pub static PRE_VIOLATION: Mutex<Option<(Violation, PathBuf)>> = Mutex::new(None);
/// Known findings hit by a systematic pre-phase
pub static PRE_KNOWN_HITS: Mutex<Vec<(String, u64)>> = Mutex::new(Vec::new());

/// Runs the regress cases, then the random search. Writes evidence. Returns the exit code.
pub fn run_engine<E: Engine + 'static>(engine: Arc<E>, tier: Tier, seed: u64) -> i32 {
    let start = Instant::now();
    let prop = engine.property().to_string();
    let known: Vec<KnownFinding> = load_known_findings()
        .into_iter()
        .filter(|k| k.property == prop && k.status == "open")
        .collect();
    let stats = Arc::new(Mutex::new(Stats::default()));
    let stop = Arc::new(AtomicBool::new(false));
    let found: Arc<Mutex<Option<(Violation, PathBuf)>>> = Arc::new(Mutex::new(None));

    // 1. regress cases (deterministic replays, strict)
    let mut regress_run = 0u64;
    if let Ok(rd) = std::fs::read_dir(engine.regress_dir()) {
        let mut files: Vec<PathBuf> = rd.filter_map(|e| e.ok().map(|e| e.path())).collect();
        files.sort();
        for f in files {
            if f.extension().and_then(|e| e.to_str()) != Some("json") {
                continue;
            }
            let text = std::fs::read_to_string(&f).unwrap();
            let rf: ReplayFile<E::Case> = match serde_json::from_str(&text) {
                Ok(rf) => rf,
                Err(e) => {
                    eprintln!("cannot parse regress case {}: {e}", f.display());
                    return 2;
                }
            };
            let out = engine.run(&rf.case);
            regress_run += 1;
            record(&stats, &out);
            if let Some(v) = out.violation {
                if let Some(k) = known.iter().find(|k| v.signature.contains(&k.signature)) {
                    *stats
                        .lock()
                        .unwrap()
                        .known_hits
                        .entry(k.signature.clone())
                        .or_default() += 1;
                } else {
                    println!("VIOLATION property={} replay={}", prop, f.display());
                    println!("  signature: {}\n  detail: {}", v.signature, v.detail);
                    write_evidence(&*engine, tier, seed, &stats, 1, start, regress_run);
                    return 1;
                }
            }
        }
    }

    for (sig, n) in PRE_KNOWN_HITS.lock().unwrap().drain(..) {
        *stats.lock().unwrap().known_hits.entry(sig).or_default() += n;
    }
    if let Some((v, path)) = PRE_VIOLATION.lock().unwrap().take() {
        println!("VIOLATION property={} replay={}", prop, path.display());
        println!("  signature: {}\n  detail: {}", v.signature, v.detail);
        write_evidence(&*engine, tier, seed, &stats, 1, start, regress_run);
        return 1;
    }

    // 2. random search
    let total = match tier {
        Tier::Quick => engine.quick_cases(),
        Tier::Thorough => engine.thorough_cases(),
    };
    let total = std::env::var("VERIF_CASES")
        .ok()
        .and_then(|v| v.parse().ok())
        .unwrap_or(total);
    let threads = n_threads().min(total.max(1));
    let per_thread = total.div_ceil(threads);
    let executed = Arc::new(AtomicU64::new(0));
    let claimed = Arc::new(AtomicBool::new(false));
    let mut handles = Vec::new();
    // watchdog: a case that does not come back is reported as inconclusive (exit 2), never as
    // a violation; the case is saved so that it can be replayed under a debugger
    let slots: Arc<Vec<Mutex<Option<(Instant, String)>>>> =
        Arc::new((0..threads).map(|_| Mutex::new(None)).collect());
    let hung: Arc<Mutex<Option<String>>> = Arc::new(Mutex::new(None));
    {
        let slots = slots.clone();
        let prop = prop.clone();
        let hung_flag = hung.clone();
        let stop_wd = stop.clone();
        let limit = std::env::var("VERIF_HANG_SECS")
            .ok()
            .and_then(|v| v.parse().ok())
            .unwrap_or(engine.hang_limit_secs());
        std::thread::Builder::new()
            .name("watchdog".into())
            .spawn(move || loop {
                std::thread::sleep(std::time::Duration::from_secs(2));
                for slot in slots.iter() {
                    let hung = {
                        let g = slot.lock().unwrap();
                        match &*g {
                            Some((t0, case)) if t0.elapsed().as_secs() > limit => {
                                Some(case.clone())
                            }
                            _ => None,
                        }
                    };
                    if let Some(case) = hung {
                        let dir = Path::new(VERIF_ROOT).join("replays").join(&prop).join("hang");
                        let _ = std::fs::create_dir_all(&dir);
                        let body = format!(
                            "{{\"property\":\"{prop}\",\"seed\":{seed},\"signature\":\"case did not finish\",\"detail\":\"watchdog: no result within {limit} s\",\"case\":{case}}}"
                        );
                        let path = dir.join(format!("{:016x}.json", hash_str(&body)));
                        let _ = std::fs::write(&path, body);
                        // the main thread stops waiting for the hung thread; a violation that
                        // another thread has found meanwhile is still reported
                        *hung_flag.lock().unwrap() = Some(format!(
                            "INCONCLUSIVE: property={prop} a generated case did not finish within {limit} s (hang in the code under test or in the harness); case saved to {}",
                            path.display()
                        ));
                        stop_wd.store(true, Ordering::Relaxed);
                        return;
                    }
                }
            })
            .unwrap();
    }
    for t in 0..threads {
        let slots = slots.clone();
        let engine = engine.clone();
        let stats = stats.clone();
        let stop = stop.clone();
        let found = found.clone();
        let known = known.clone();
        let prop = prop.clone();
        let executed = executed.clone();
        let claimed = claimed.clone();
        let h = std::thread::Builder::new()
            .stack_size(64 << 20)
            .name(format!("w{t}"))
            .spawn(move || {
                let config = Config {
                    cases: per_thread as u32,
                    failure_persistence: None,
                    max_shrink_iters: 600,
                    max_global_rejects: 1 << 20,
                    ..Config::default()
                };
                let rng = TestRng::from_seed(RngAlgorithm::ChaCha, &seed_bytes(seed, &prop, t));
                let mut runner = TestRunner::new_with_rng(config, rng);
                let strategy = engine.strategy(tier);
                let timing = std::env::var("VERIF_TIMING").is_ok();
                let collect = std::env::var("VERIF_COLLECT").is_ok();
                IN_SHRINK.with(|s| s.set(false));
                let last_violation: Arc<Mutex<Option<Violation>>> = Arc::new(Mutex::new(None));
                let lv = last_violation.clone();
                let result = runner.run(&strategy, |case| {
                    if stop.load(Ordering::Relaxed) && !IN_SHRINK.with(|s| s.get()) {
                        return Ok(());
                    }
                    let t0 = Instant::now();
                    *slots[t].lock().unwrap() =
                        Some((t0, serde_json::to_string(&case).unwrap_or_default()));
                    let out = engine.run(&case);
                    *slots[t].lock().unwrap() = None;
                    if timing {
                        let el = t0.elapsed().as_secs_f64();
                        if el > 0.5 {
                            eprintln!("SLOW case {:.3}s {}", el, serde_json::to_string(&out.summary).unwrap_or_default().chars().take(3000).collect::<String>());
                        } else {
                            eprintln!("case {:.3}s", el);
                        }
                    }
                    let shrinking = IN_SHRINK.with(|s| s.get());
                    if !shrinking {
                        executed.fetch_add(1, Ordering::Relaxed);
                        record(&stats, &out);
                    }
                    if let (Some(a), Ok(_)) = (&out.aborted, std::env::var("VERIF_DUMP_ABORTED")) {
                        // developer switch: keep the aborted cases for a look
                        let dir = Path::new("/tmp/hqverif-aborted");
                        let _ = std::fs::create_dir_all(dir);
                        let body = serde_json::json!({"property": prop, "seed": seed, "signature": "aborted", "detail": a, "case": &case});
                        let _ = std::fs::write(
                            dir.join(format!("{:016x}.json", hash_str(&body.to_string()))),
                            body.to_string(),
                        );
                    }
                    if let Some(v) = out.violation {
                        if collect {
                            // developer mode: histogram of violation signatures, never fails
                            *stats
                                .lock()
                                .unwrap()
                                .known_hits
                                .entry(format!("COLLECTED {}", v.signature))
                                .or_default() += 1;
                            return Ok(());
                        }
                        if let Some(k) = known.iter().find(|k| v.signature.contains(&k.signature)) {
                            if !shrinking {
                                *stats
                                    .lock()
                                    .unwrap()
                                    .known_hits
                                    .entry(k.signature.clone())
                                    .or_default() += 1;
                            }
                            return Ok(());
                        }
                        if !shrinking && claimed.swap(true, Ordering::SeqCst) {
                            // another thread already found a violation and is shrinking it
                            stop.store(true, Ordering::Relaxed);
                            return Ok(());
                        }
                        stop.store(true, Ordering::Relaxed);
                        IN_SHRINK.with(|s| s.set(true));
                        let msg = v.signature.clone();
                        *lv.lock().unwrap() = Some(v);
                        return Err(TestCaseError::fail(msg));
                    }
                    Ok(())
                });
                if let Err(TestError::Fail(_, minimal)) = result {
                    // re-run the minimal case to get its own verdict text
                    let out = engine.run(&minimal);
                    let v = out
                        .violation
                        .or_else(|| last_violation.lock().unwrap().clone())
                        .unwrap();
                    let mut f = found.lock().unwrap();
                    if f.is_none() {
                        let path = write_replay(&prop, seed, &v, &minimal).unwrap();
                        *f = Some((v, path));
                    }
                    stop.store(true, Ordering::Relaxed);
                } else if let Err(TestError::Abort(reason)) = result {
                    eprintln!("proptest aborted: {reason}");
                }
            })
            .unwrap();
        handles.push(h);
    }
    let mut thread_panicked = false;
    let mut handles = handles;
    loop {
        // wait for the search threads, but not for one that the watchdog declared hung (after
        // the others had a moment to finish shrinking what they found)
        reap(&mut handles, &mut thread_panicked);
        if handles.is_empty() {
            break;
        }
        if hung.lock().unwrap().is_some() {
            let t0 = Instant::now();
            while handles.len() > 1 && t0.elapsed().as_secs() < 120 {
                std::thread::sleep(std::time::Duration::from_millis(200));
                reap(&mut handles, &mut thread_panicked);
            }
            break;
        }
        std::thread::sleep(std::time::Duration::from_millis(20));
    }
    if thread_panicked {
        eprintln!("INCONCLUSIVE: a harness thread panicked");
        return 2;
    }
    if let Some(msg) = hung.lock().unwrap().clone() {
        if let Some((v, path)) = found.lock().unwrap().take() {
            println!("{msg}");
            println!("VIOLATION property={} replay={}", prop, path.display());
            println!("  signature: {}\n  detail: {}", v.signature, v.detail);
            write_evidence(&*engine, tier, seed, &stats, 1, start, regress_run);
            return 1;
        }
        println!("{msg}");
        return 2;
    }

    let found = found.lock().unwrap().take();
    if found.is_none() {
        if let Some(msg) = HUNG_NOTE.lock().unwrap().clone() {
            println!("{msg} ({} cases abandoned)", HUNG_CASES.load(Ordering::Relaxed));
            return 2;
        }
    }
    let violations = if found.is_some() { 1 } else { 0 };
    write_evidence(&*engine, tier, seed, &stats, violations, start, regress_run);

    {
        let st = stats.lock().unwrap();
        for (sig, n) in &st.known_hits {
            let desc = known
                .iter()
                .find(|k| &k.signature == sig)
                .map(|k| k.description.clone())
                .unwrap_or_default();
            println!("KNOWN-FINDING: property={prop} {sig} ({n} cases) {desc}");
        }
        println!(
            "{prop} {}: {} cases, {} distinct non-trivial, {} aborted, {:.1}s",
            tier.name(),
            st.evaluations,
            st.nontrivial_hashes.len(),
            st.aborted,
            start.elapsed().as_secs_f64()
        );
        if st.evaluations > 20 && st.aborted * 2 > st.evaluations {
            eprintln!("INCONCLUSIVE: more than half of the cases were aborted");
            return 2;
        }
    }
    if let Some((v, path)) = found {
        println!("VIOLATION property={} replay={}", prop, path.display());
        println!("  signature: {}\n  detail: {}", v.signature, v.detail);
        return 1;
    }
    0
}

fn record(stats: &Arc<Mutex<Stats>>, out: &Outcome) {
    let mut st = stats.lock().unwrap();
    st.evaluations += 1;
    if let Some(r) = &out.aborted {
        st.aborted += 1;
        let key: String = r.chars().take(120).collect();
        *st.abort_reasons.entry(key).or_default() += 1;
    }
    for c in &out.classes {
        *st.classes.entry(c.clone()).or_default() += 1;
    }
    if out.nontrivial {
        st.nontrivial_total += 1;
        if st.nontrivial_hashes.insert(out.trace_hash) && st.samples.len() < 4 {
            st.samples.push(out.summary.clone());
        }
    }
}

fn write_evidence<E: Engine>(
    engine: &E,
    tier: Tier,
    seed: u64,
    stats: &Arc<Mutex<Stats>>,
    violations: i64,
    start: Instant,
    regress_run: u64,
) {
    if std::env::var("VERIF_NO_EVIDENCE").is_ok() {
        // developer switch for experiments with modified copies of the repository
        return;
    }
    let st = stats.lock().unwrap();
    let mut samples = st.samples.clone();
    if samples.is_empty() {
        samples.push(serde_json::json!("no non-trivial case in this run"));
    }
    let ev = serde_json::json!({
        "property_id": engine.property(),
        "tier": tier.name(),
        "seed": seed,
        "level": engine.level(),
        "coverage": {
            "evaluations": st.evaluations,
            "distinct_nontrivial": st.nontrivial_hashes.len(),
            "nontrivial_total": st.nontrivial_total,
            "rule": engine.rule(),
            "samples": samples,
            "classes": st.classes,
            "aborted_cases": st.aborted,
            "abort_reasons": st.abort_reasons,
            "regress_cases_replayed": regress_run,
            "known_finding_hits": st.known_hits,
            "exhaustive": false,
        },
        "assumptions": engine.assumptions(),
        "wall_s": start.elapsed().as_secs_f64(),
        "violations": violations,
    });
    let mut ev = ev;
    if let Some(x) = EXTRA_COVERAGE.lock().unwrap().clone() {
        ev["coverage"]["systematic"] = x;
    }
    let dir = Path::new(VERIF_ROOT).join("evidence");
    std::fs::create_dir_all(&dir).unwrap();
    std::fs::write(
        dir.join(format!("{}.json", engine.property())),
        serde_json::to_string_pretty(&ev).unwrap(),
    )
    .unwrap();
}

/// Strict replay of one file. Exit code 1 + VIOLATION line if the violation reproduces.
pub fn replay_engine<E: Engine>(engine: &E, path: &Path) -> i32 {
    let text = match std::fs::read_to_string(path) {
        Ok(t) => t,
        Err(e) => {
            eprintln!("cannot read {}: {e}", path.display());
            return 2;
        }
    };
    let rf: ReplayFile<E::Case> = match serde_json::from_str(&text) {
        Ok(rf) => rf,
        Err(e) => {
            eprintln!("cannot parse {}: {e}", path.display());
            return 2;
        }
    };
    let out = engine.run(&rf.case);
    println!(
        "{}",
        serde_json::to_string_pretty(&out.summary).unwrap_or_default()
    );
    if let Some(a) = out.aborted {
        println!("case aborted: {a}");
    }
    if let Some(v) = out.violation {
        println!(
            "VIOLATION property={} replay={}",
            engine.property(),
            path.display()
        );
        println!("  signature: {}\n  detail: {}", v.signature, v.detail);
        1
    } else {
        println!("no violation of {} in this replay", engine.property());
        0
    }
}

/// Monotone index mapping (shrinks toward 0)
#[inline]
pub fn pick(c: u16, n: usize) -> usize {
    if n == 0 {
        0
    } else {
        ((c as usize) * n) >> 16
    }
}

/// Derive the k-th sub-choice from one u16 (k = 0 is the monotone one)
#[inline]
pub fn sub(a: u32, k: u32, n: usize) -> usize {
    if k == 0 {
        return if n == 0 { 0 } else { ((a as u64 * n as u64) >> 32) as usize };
    }
    let mut z = (a as u64 + 1).wrapping_mul(0x9E37_79B9_7F4A_7C15 ^ ((k as u64) << 17));
    z = (z ^ (z >> 29)).wrapping_mul(0xBF58_476D_1CE4_E5B9);
    z ^= z >> 32;
    if n == 0 { 0 } else { (z % n as u64) as usize }
}

pub fn boxed<S: Strategy + 'static>(s: S) -> BoxedStrategy<S::Value> {
    s.boxed()
}
